#!/bin/bash
# selftest/run.sh [property]  — must-fail corpus (selftest/mutants) and must-pass corpus (selftest/harmless).
# Each patch is applied to a scratch copy of /repo (outside /repo and /verif, removed afterwards); the property's quick
# check is run against the copy (VERIF_REPO) and must report a VIOLATION (mutants) or exit 0 (harmless).
here="$(cd "$(dirname "$0")/.." && pwd)"
scratch="$(mktemp -d /tmp/bklverif-selftest.XXXXXX)"
trap 'rm -rf "$scratch"' EXIT
rsync -a --exclude .git --exclude testdata /repo/ "$scratch/repo/"
# a snapshot of the machinery as well (tool binary, spec, ledgers, findings; the solver cache is shared read-mostly):
# the corpus takes an hour, and the results must not depend on what happens to /verif meanwhile
snap="$scratch/verif"; mkdir -p "$snap/work"
for d in bin spec ledger contracts selftest known-findings.jsonl assumed-obligations.jsonl properties.jsonl; do cp -a "$here/$d" "$snap/"; done
cp -a "$here/work/cache" "$snap/work/" 2>/dev/null
export VERIF_DIR="$snap"
here_bin="$snap/bin/bklverif"
fail=0; n=0
for kind in mutants harmless; do
  for p in "$here"/selftest/$kind/*.patch; do
    [ -e "$p" ] || continue
    b="$(basename "$p" .patch)"; prop="${b%%-*}"
    [ -n "$1" ] && [ "$1" != "$prop" ] && continue
    n=$((n+1))
    if ! patch -s -p1 -d "$scratch/repo" < "$p"; then echo "SELFTEST-BROKEN $b: patch does not apply"; fail=1; continue; fi
    out="$(VERIF_REPO="$scratch/repo" "$here_bin" check "$prop" quick 2>&1)"; rc=$?
    patch -s -R -p1 -d "$scratch/repo" < "$p"
    if [ $kind = mutants ]; then
      if [ $rc -eq 1 ] && echo "$out" | grep -q '^VIOLATION'; then echo "ok   caught  $b  ($(echo "$out" | grep -c '^VIOLATION') obligations)";
      else echo "MISS         $b (exit $rc)"; fail=1; fi
    else
      if [ $rc -eq 0 ]; then echo "ok   quiet   $b"; else echo "FALSE-ALARM  $b (exit $rc)"; echo "$out" | grep '^VIOLATION' | head -3; fail=1; fi
    fi
  done
done
echo "selftest: $n cases, fail=$fail"
exit $fail
