#!/bin/bash
# selftest/run.sh [property]  — must-fail corpus (selftest/mutants) and must-pass corpus (selftest/harmless).
# Each patch is applied to a scratch copy of /repo (outside /repo and /verif, removed afterwards); the property's quick
# check is run against the copy (VERIF_REPO) and must report a VIOLATION (mutants) or exit 0 (harmless).
# SELFTEST_JOBS cases run side by side (default 3), each in its own copy.
here="$(cd "$(dirname "$0")/.." && pwd)"
scratch="$(mktemp -d /tmp/bklverif-selftest.XXXXXX)"
trap 'rm -rf "$scratch"' EXIT
jobs="${SELFTEST_JOBS:-3}"
# a snapshot of the machinery as well (tool binary, spec, ledgers, findings, solver cache): the corpus takes a long time,
# and the results must not depend on what happens to /verif meanwhile
snap="$scratch/verif"; mkdir -p "$snap/work"
for d in bin spec ledger contracts selftest known-findings.jsonl assumed-obligations.jsonl properties.jsonl; do cp -a "$here/$d" "$snap/"; done
cp -a "$here/work/cache" "$snap/work/" 2>/dev/null
for j in $(seq 1 "$jobs"); do rsync -a --exclude .git --exclude testdata /repo/ "$scratch/repo$j/"; done
list="$scratch/list"; : > "$list"
for kind in mutants harmless; do
  for p in "$here"/selftest/$kind/*.patch; do
    [ -e "$p" ] || continue
    b="$(basename "$p" .patch)"; prop="${b%%-*}"
    [ -n "$1" ] && [ "$1" != "$prop" ] && continue
    echo "$kind $p" >> "$list"
  done
done
one() { # one <slot> <kind> <patch>
  slot="$1"; kind="$2"; p="$3"; b="$(basename "$p" .patch)"; prop="${b%%-*}"; repo="$scratch/repo$slot"
  if ! patch -s -p1 -d "$repo" < "$p"; then echo "SELFTEST-BROKEN $b: patch does not apply"; return; fi
  out="$(VERIF_DIR="$snap" VERIF_REPO="$repo" "$snap/bin/bklverif" check "$prop" quick 2>&1)"; rc=$?
  # exit 2 = the tool could not run (a transient failure under load): try again, twice
  for again in 1 2; do [ $rc -eq 2 ] || break; sleep 5; out="$(VERIF_DIR="$snap" VERIF_REPO="$repo" "$snap/bin/bklverif" check "$prop" quick 2>&1)"; rc=$?; done
  patch -s -R -p1 -d "$repo" < "$p"
  if [ "$kind" = mutants ]; then
    if [ $rc -eq 1 ] && echo "$out" | grep -q '^VIOLATION'; then echo "ok   caught  $b  ($(echo "$out" | grep -c '^VIOLATION') obligations)";
    else echo "MISS         $b (exit $rc)"; fi
  else
    if [ $rc -eq 0 ]; then echo "ok   quiet   $b"; else echo "FALSE-ALARM  $b (exit $rc)"; echo "$out" | grep '^VIOLATION' | head -3; fi
  fi
}
export -f one; export scratch snap
# slot i takes lines i, i+jobs, i+2*jobs, ...
for j in $(seq 1 "$jobs"); do
  ( awk -v j="$j" -v n="$jobs" '(NR-1)%n==j-1' "$list" | while read -r kind p; do one "$j" "$kind" "$p"; done ) > "$scratch/out$j" &
done
wait
cat "$scratch"/out* | sort -k3
n=$(wc -l < "$list"); bad=$(cat "$scratch"/out* | grep -c "^MISS\|^FALSE-ALARM\|^SELFTEST-BROKEN")
echo "selftest: $n cases, fail=$([ "$bad" -gt 0 ] && echo 1 || echo 0) ($bad not as expected)"
[ "$bad" -eq 0 ]
