#!/bin/bash
# selftest/harmless-all.sh [patch-name-glob]  — every must-pass edit against EVERY property's quick check (not only the
# property named in the patch's file name): an edit that keeps all properties must keep all twenty checks quiet.
# selftest/harmless-any/ holds behaviour-preserving refactors written by independent sub-agents (A<agent><n>-<kind>).
here="$(cd "$(dirname "$0")/.." && pwd)"
scratch="$(mktemp -d /tmp/bklverif-harmless.XXXXXX)"
trap 'rm -rf "$scratch"' EXIT
rsync -a --exclude .git --exclude testdata /repo/ "$scratch/repo/"
# run from a snapshot of the machinery (see run.sh): an hour-long run must not depend on what happens to /verif meanwhile
snap="$scratch/verif"; mkdir -p "$snap/work"
for d in bin spec ledger contracts selftest known-findings.jsonl assumed-obligations.jsonl properties.jsonl; do cp -a "$here/$d" "$snap/"; done
cp -a "$here/work/cache" "$snap/work/" 2>/dev/null
export VERIF_DIR="$snap"
fail=0; n=0
for p in "$here"/selftest/harmless/${1:-*}.patch "$here"/selftest/harmless-any/${1:-*}.patch; do
  [ -e "$p" ] || continue
  b="$(basename "$p" .patch)"; n=$((n+1))
  if ! patch -s -p1 -d "$scratch/repo" < "$p"; then echo "SELFTEST-BROKEN $b: patch does not apply"; fail=1; continue; fi
  if ! ( cd "$scratch/repo" && GOFLAGS=-mod=mod GOPROXY=off go build ./... ) >/dev/null 2>&1; then echo "SELFTEST-BROKEN $b: does not build"; fail=1; fi
  bad=""
  for i in $(seq -w 1 20); do
    out="$(VERIF_REPO="$scratch/repo" "$snap/bin/bklverif" check "C$i" quick 2>&1)"; rc=$?
    if [ $rc -ne 0 ]; then bad="$bad C$i"; echo "$out" | grep '^VIOLATION' | sed 's/replay=[^ ]* //' | head -3 | sed "s/^/    /"; fi
  done
  patch -s -R -p1 -d "$scratch/repo" < "$p"
  if [ -z "$bad" ]; then echo "ok   quiet on all 20  $b";
  elif grep -qx "$b" "$here/selftest/harmless-any/EXPECTED" 2>/dev/null; then echo "EXPECTED-ALARM (structure of a contracted function changed, DESIGN 10.8)  $b:$bad";
  else echo "FALSE-ALARM  $b:$bad"; fail=1; fi
done
echo "harmless-all: $n edits, fail=$fail"
exit $fail
