#!/bin/bash
# selftest/harmless-all.sh [patch-name-glob]  — every must-pass edit against EVERY property's quick check (not only the
# property named in the patch's file name): an edit that keeps all properties must keep all twenty checks quiet.
# selftest/harmless-any/ holds behaviour-preserving refactors written by independent sub-agents (A<agent><n>-<kind>);
# selftest/harmless-any/EXPECTED lists the refactors that change the STRUCTURE of a contracted function (a loop moved
# into or out of a helper, a contracted function renamed, bookkeeping that carries a proof restated): alarms there are
# inherent to contract-based verification (DESIGN 10.8) and do not fail the run.
# Runs from a snapshot of the machinery and HARMLESS_JOBS scratch copies of /repo (default 4), removed afterwards.
here="$(cd "$(dirname "$0")/.." && pwd)"
scratch="$(mktemp -d /tmp/bklverif-harmless.XXXXXX)"
trap 'rm -rf "$scratch"' EXIT
jobs="${HARMLESS_JOBS:-4}"
snap="$scratch/verif"; mkdir -p "$snap/work"
for d in bin spec ledger contracts selftest known-findings.jsonl assumed-obligations.jsonl properties.jsonl; do cp -a "$here/$d" "$snap/"; done
cp -a "$here/work/cache" "$snap/work/" 2>/dev/null
for j in $(seq 1 "$jobs"); do rsync -a --exclude .git --exclude testdata /repo/ "$scratch/repo$j/"; done
list="$scratch/list"; : > "$list"
for p in "$here"/selftest/harmless/${1:-*}.patch "$here"/selftest/harmless-any/${1:-*}.patch; do
  [ -e "$p" ] && echo "$p" >> "$list"
done
one() {
  slot="$1"; p="$2"; b="$(basename "$p" .patch)"; repo="$scratch/repo$slot"
  if ! patch -s -p1 -d "$repo" < "$p"; then echo "SELFTEST-BROKEN $b: patch does not apply"; return; fi
  if ! ( cd "$repo" && GOFLAGS=-mod=mod GOPROXY=off go build ./... ) >/dev/null 2>&1; then echo "SELFTEST-BROKEN $b: does not build"; fi
  bad=""; det=""
  for i in $(seq -w 1 20); do
    out="$(VERIF_DIR="$snap" VERIF_REPO="$repo" "$snap/bin/bklverif" check "C$i" quick 2>&1)"; rc=$?
    for again in 1 2; do [ $rc -eq 2 ] || break; sleep 5; out="$(VERIF_DIR="$snap" VERIF_REPO="$repo" "$snap/bin/bklverif" check "C$i" quick 2>&1)"; rc=$?; done
    if [ $rc -ne 0 ]; then bad="$bad C$i"; det="$det$(echo "$out" | grep '^VIOLATION' | sed 's/replay=[^ ]* //' | head -3 | sed "s/^/    /")"$'\n'; fi
  done
  patch -s -R -p1 -d "$repo" < "$p"
  if [ -z "$bad" ]; then echo "ok   quiet on all 20  $b";
  elif grep -qx "$b" "$here/selftest/harmless-any/EXPECTED" 2>/dev/null; then echo "EXPECTED-ALARM (structure of a contracted function changed, DESIGN 10.8)  $b:$bad";
  else printf '%s' "$det"; echo "FALSE-ALARM  $b:$bad"; fi
}
for j in $(seq 1 "$jobs"); do
  ( awk -v j="$j" -v n="$jobs" '(NR-1)%n==j-1' "$list" | while read -r p; do one "$j" "$p"; done ) > "$scratch/out$j" &
done
wait
cat "$scratch"/out*
n=$(wc -l < "$list"); bad=$(cat "$scratch"/out* | grep -c "^FALSE-ALARM\|^SELFTEST-BROKEN")
echo "harmless-all: $n edits, fail=$([ "$bad" -gt 0 ] && echo 1 || echo 0) ($bad not as expected)"
[ "$bad" -eq 0 ]
