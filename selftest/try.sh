#!/bin/bash
# selftest/try.sh <patch-file> <prop>...  — apply one patch to a scratch copy of /repo and run the named quick checks
here="$(cd "$(dirname "$0")/.." && pwd)"
scratch="$(mktemp -d /tmp/bklverif-try.XXXXXX)"; trap 'rm -rf "$scratch"' EXIT
rsync -a --exclude .git --exclude testdata /repo/ "$scratch/repo/"
p="$1"; shift
patch -s -p1 -d "$scratch/repo" < "$p" || { echo "patch does not apply"; exit 2; }
for id in "$@"; do
  VERIF_REPO="$scratch/repo" "$here/bin/bklverif" check "$id" quick 2>&1 | grep -E "^VIOLATION|^$id " | sed 's/replay=[^ ]* //' | cut -c1-220
done
