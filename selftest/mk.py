#!/usr/bin/env python3
"""mk.py <kind:mutants|harmless> <property> <name> <file> <old> <new> [<old2> <new2> ...]
Creates selftest/<kind>/<property>-<name>.patch: a unified diff of /repo/<file> with each <old> (must occur exactly once)
replaced by <new>."""
import sys, subprocess, os, tempfile
kind, prop, name, file = sys.argv[1:5]
pairs = sys.argv[5:]
src = open(os.path.join('/repo', file)).read()
new = src
for i in range(0, len(pairs), 2):
    old, rep = pairs[i], pairs[i+1]
    if new.count(old) != 1:
        sys.exit(f"{file}: {old!r} occurs {new.count(old)} times")
    new = new.replace(old, rep)
with tempfile.NamedTemporaryFile('w', suffix='.go', delete=False) as t:
    t.write(new)
out = subprocess.run(['diff', '-u', '--label', 'a/' + file, '--label', 'b/' + file, os.path.join('/repo', file), t.name],
                     capture_output=True, text=True).stdout
os.unlink(t.name)
path = f'/verif/selftest/{kind}/{prop}-{name}.patch'
open(path, 'w').write(out)
print(path)
