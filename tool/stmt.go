package main

import (
	"fmt"
	"go/ast"
	"go/token"
	"go/types"
	"strings"
)

func (e *Exec) execBlock(stmts []ast.Stmt, st *State, ctx *Ctx, k func(*State)) {
	if len(stmts) == 0 {
		k(st)
		return
	}
	e.execStmt(stmts[0], st, ctx, func(st2 *State) {
		e.execBlock(stmts[1:], st2, ctx, k)
	})
}

func (e *Exec) branch(st *State, cond, tag string) *State {
	n := st.clone()
	n.pc = append(n.pc, cond)
	n.path = append(n.path, tag)
	return n
}

// nestedHelperCall: the first call (innermost, leftmost) of a helper without a contract that sits INSIDE an expression
// of the statement (an argument, an operand, one of several results) and has not been executed yet on this path. Calls
// in statement position are handled where the statement is executed; operands that Go evaluates conditionally (the right
// side of && and ||) and function literals are left alone.
func (e *Exec) nestedHelperCall(s ast.Stmt, st *State, ctx *Ctx) *ast.CallExpr {
	var roots []ast.Expr
	top := map[ast.Expr]bool{}
	switch y := s.(type) {
	case *ast.ReturnStmt:
		roots = y.Results
		if len(y.Results) == 1 {
			top[y.Results[0]] = true
		}
	case *ast.AssignStmt:
		roots = append(append([]ast.Expr{}, y.Rhs...), y.Lhs...)
		if len(y.Rhs) == 1 {
			top[y.Rhs[0]] = true
		}
	case *ast.ExprStmt:
		roots = []ast.Expr{y.X}
		top[y.X] = true
	case *ast.IfStmt:
		roots = []ast.Expr{y.Cond}
	default:
		return nil
	}
	info := e.info(ctx)
	var found *ast.CallExpr
	var walk func(x ast.Node)
	walk = func(x ast.Node) {
		if found != nil || x == nil {
			return
		}
		switch y := x.(type) {
		case *ast.FuncLit:
			return
		case *ast.BinaryExpr:
			walk(y.X)
			if y.Op != token.LAND && y.Op != token.LOR {
				walk(y.Y)
			}
			return
		case *ast.CallExpr:
			for _, a := range y.Args {
				walk(a)
			}
			walk(y.Fun)
			if found != nil || top[y] {
				return
			}
			if _, done := st.preval[y]; done {
				return
			}
			if callee := e.calleeOf(y, info); callee != nil && e.autoInlinable(callee) {
				if callee.Obj.Type().(*types.Signature).Results().Len() == 1 {
					found = y
				}
			}
			return
		}
		ast.Inspect(x, func(n ast.Node) bool {
			if n == nil || n == x {
				return true
			}
			walk(n)
			return false
		})
	}
	for _, r := range roots {
		walk(r)
	}
	return found
}

func (e *Exec) execStmt(s ast.Stmt, st *State, ctx *Ctx, k func(*State)) {
	if call := e.nestedHelperCall(s, st, ctx); call != nil {
		callee := e.calleeOf(call, e.info(ctx))
		e.inlineFunc(callee, call, st, ctx, nil, func(st2 *State, vals []string) {
			if st2.preval == nil {
				st2.preval = map[*ast.CallExpr]string{}
			}
			st2.preval[call] = vals[0]
			e.execStmt(s, st2, ctx, k)
		})
		return
	}
	switch s := s.(type) {
	case *ast.BlockStmt:
		e.execBlock(s.List, st, ctx, k)
	case *ast.EmptyStmt:
		k(st)
	case *ast.ExprStmt:
		if call, ok := s.X.(*ast.CallExpr); ok {
			if e.tryInline(call, st, ctx, func(st2 *State, _ []string) { k(st2) }) {
				return
			}
			if e.isNoReturn(call, ctx) {
				e.evalCall(call, st, ctx)
				return // path ends: the process exits
			}
			e.evalCall(call, st, ctx)
			k(st)
			return
		}
		e.unsupported(s.Pos(), "expression statement %T", s.X)
	case *ast.AssignStmt:
		e.execAssign(s, st, ctx, k)
	case *ast.IncDecStmt:
		v := e.eval(s.X, st, ctx)
		op := "+"
		if s.Tok == token.DEC {
			op = "-"
		}
		e.assignTo(s.X, "("+op+" "+v+" 1)", st, ctx)
		k(st)
	case *ast.DeclStmt:
		gd, ok := s.Decl.(*ast.GenDecl)
		if !ok || gd.Tok != token.VAR {
			if ok && (gd.Tok == token.CONST || gd.Tok == token.TYPE) {
				k(st)
				return
			}
			e.unsupported(s.Pos(), "declaration statement")
		}
		for _, sp := range gd.Specs {
			vs := sp.(*ast.ValueSpec)
			for i, n := range vs.Names {
				v, _ := e.info(ctx).Defs[n].(*types.Var)
				if v == nil {
					continue
				}
				if i < len(vs.Values) {
					st.env[v] = e.evalTo(vs.Values[i], v.Type(), st, ctx)
				} else {
					st.env[v] = zeroOf(v.Type())
				}
			}
		}
		k(st)
	case *ast.ReturnStmt:
		e.execReturn(s, st, ctx)
	case *ast.IfStmt:
		withCond := func(st *State, c string) {
			tag := fmt.Sprintf("if%d", e.w.Fset.Position(s.Pos()).Line)
			e.execBlock(s.Body.List, e.branch(st, c, tag+"t"), ctx, k)
			els := e.branch(st, "(not "+c+")", tag+"f")
			if s.Else != nil {
				e.execStmt(s.Else, els, ctx, k)
			} else {
				k(els)
			}
		}
		run := func(st *State) {
			// `if helper(x)` / `if !helper(x)` with a helper that is executed through its body
			cond, neg := ast.Expr(s.Cond), false
			for {
				if p, ok := cond.(*ast.ParenExpr); ok {
					cond = p.X
					continue
				}
				if u, ok := cond.(*ast.UnaryExpr); ok && u.Op == token.NOT {
					cond, neg = u.X, !neg
					continue
				}
				break
			}
			if call, ok := cond.(*ast.CallExpr); ok {
				if callee := e.calleeOf(call, e.info(ctx)); callee != nil && e.autoInlinable(callee) {
					if sig := callee.Obj.Type().(*types.Signature); sig.Results().Len() == 1 {
						if e.tryInline(call, st, ctx, func(st2 *State, vals []string) {
							c := vals[0]
							if neg {
								c = "(not " + c + ")"
							}
							withCond(st2, c)
						}) {
							return
						}
					}
				}
			}
			withCond(st, e.eval(s.Cond, st, ctx))
		}
		if s.Init != nil {
			e.execStmt(s.Init, st, ctx, run)
		} else {
			run(st)
		}
	case *ast.SwitchStmt:
		e.execSwitch(s, st, ctx, k)
	case *ast.TypeSwitchStmt:
		e.execTypeSwitch(s, st, ctx, k)
	case *ast.ForStmt:
		e.execFor(s, "", st, ctx, k)
	case *ast.RangeStmt:
		e.execRange(s, "", st, ctx, k)
	case *ast.LabeledStmt:
		switch in := s.Stmt.(type) {
		case *ast.ForStmt:
			e.execFor(in, s.Label.Name, st, ctx, k)
		case *ast.RangeStmt:
			e.execRange(in, s.Label.Name, st, ctx, k)
		default:
			e.execStmt(s.Stmt, st, ctx, k)
		}
	case *ast.BranchStmt:
		label := ""
		if s.Label != nil {
			label = s.Label.Name
		}
		for c := ctx; c != nil; c = c.parent {
			if c.brk == nil && c.cont == nil {
				continue
			}
			if label != "" && c.label != label {
				continue
			}
			switch s.Tok {
			case token.BREAK:
				if c.brk != nil {
					c.brk(st)
					return
				}
			case token.CONTINUE:
				if c.cont != nil {
					c.cont(st)
					return
				}
			}
		}
		e.unsupported(s.Pos(), "branch statement %s", s.Tok)
	case *ast.DeferStmt:
		if lit, ok := s.Call.Fun.(*ast.FuncLit); ok && len(s.Call.Args) == 0 && ctx.frame.fi == e.fi {
			// defer func() { ... }(): runs at every return of this function, after the results are set
			st.defers = append(st.defers, lit)
			k(st)
			return
		}
		if _, ok := s.Call.Fun.(*ast.FuncLit); ok {
			e.unsupported(s.Pos(), "deferred function literal with arguments or inside an inlined function")
		}
		e.note("defer " + exprString(s.Call) + " is ignored (resource release)")
		k(st)
	default:
		e.unsupported(s.Pos(), "statement %T", s)
	}
}

func (e *Exec) isNoReturn(call *ast.CallExpr, ctx *Ctx) bool {
	info := e.info(ctx)
	switch f := call.Fun.(type) {
	case *ast.Ident:
		if f.Name == "panic" {
			if _, ok := info.Uses[f].(*types.Builtin); ok {
				return true
			}
		}
		if fn, ok := info.Uses[f].(*types.Func); ok && fn.Name() == "fatal" {
			return true
		}
	case *ast.SelectorExpr:
		if fn, ok := info.Uses[f.Sel].(*types.Func); ok && fn.Pkg() != nil {
			if fn.Pkg().Path() == "os" && fn.Name() == "Exit" {
				return true
			}
		}
	}
	return false
}

func (e *Exec) execReturn(s *ast.ReturnStmt, st *State, ctx *Ctx) {
	fr := ctx.frame
	if len(s.Results) == 0 {
		var vals []string
		for _, rv := range fr.results {
			vals = append(vals, st.env[rv])
		}
		fr.ret(st, vals)
		return
	}
	if len(s.Results) == 1 && len(fr.resTypes) > 1 {
		call, ok := s.Results[0].(*ast.CallExpr)
		if !ok {
			e.unsupported(s.Pos(), "return of multi-value non-call")
		}
		if e.tryInline(call, st, ctx, func(st2 *State, vals []string) { fr.ret(st2, e.convResults(call, vals, fr.resTypes, ctx)) }) {
			return
		}
		vals := e.evalCall(call, st, ctx)
		fr.ret(st, e.convResults(call, vals, fr.resTypes, ctx))
		return
	}
	if len(s.Results) == 1 {
		if call, ok := s.Results[0].(*ast.CallExpr); ok {
			if e.tryInline(call, st, ctx, func(st2 *State, vals []string) { fr.ret(st2, e.convResults(call, vals, fr.resTypes, ctx)) }) {
				return
			}
		}
	}
	var vals []string
	for i, r := range s.Results {
		vals = append(vals, e.evalTo(r, fr.resTypes[i], st, ctx))
	}
	fr.ret(st, vals)
}

// convResults converts the results of a call to the given target types (e.g. map[string]any -> any is the identity,
// string -> any wraps).
func (e *Exec) convResults(call *ast.CallExpr, vals []string, to []types.Type, ctx *Ctx) []string {
	t := e.typeOf(call, ctx)
	out := make([]string, len(vals))
	if tup, ok := t.(*types.Tuple); ok {
		for i := range vals {
			if i < tup.Len() && i < len(to) {
				out[i] = e.conv(vals[i], tup.At(i).Type(), to[i])
			} else {
				out[i] = vals[i]
			}
		}
		return out
	}
	if len(vals) == 1 && len(to) >= 1 {
		out[0] = e.conv(vals[0], t, to[0])
		return out
	}
	return vals
}

func (e *Exec) lhsType(x ast.Expr, ctx *Ctx) types.Type {
	if id, ok := x.(*ast.Ident); ok {
		if id.Name == "_" {
			return nil
		}
		if o := e.info(ctx).ObjectOf(id); o != nil {
			return o.Type()
		}
	}
	return e.typeOf(x, ctx)
}

// assignTo stores an already-converted value into an lvalue.
func (e *Exec) assignTo(lhs ast.Expr, val string, st *State, ctx *Ctx) {
	info := e.info(ctx)
	switch l := lhs.(type) {
	case *ast.ParenExpr:
		e.assignTo(l.X, val, st, ctx)
	case *ast.Ident:
		if l.Name == "_" {
			return
		}
		v, _ := info.ObjectOf(l).(*types.Var)
		if v == nil {
			e.unsupported(l.Pos(), "assignment to %s", l.Name)
		}
		if _, local := st.env[v]; !local && v.Parent() == v.Pkg().Scope() {
			e.unsupported(l.Pos(), "assignment to package-level variable %s", l.Name)
		}
		if isTreeMap(v.Type()) {
			st.nonNil[v] = strings.HasPrefix(val, "(VMap ")
		}
		// keep terms small: bind large values to a fresh constant
		if len(val) > 160 {
			c := e.fresh(st, v.Name(), sortOf(v.Type()))
			st.pc = append(st.pc, "(= "+c+" "+val+")")
			val = c
		}
		st.env[v] = val
	case *ast.IndexExpr:
		t := e.typeOf(l.X, ctx)
		switch {
		case isTreeMap(t):
			m := e.eval(l.X, st, ctx)
			kx := e.eval(l.Index, st, ctx)
			if _, isField := l.X.(*ast.SelectorExpr); isField {
				e.note("map-typed struct fields that are written through are assumed non-nil (EvalContext.Vars is created by envVars/maps.Clone)")
				st.assume("((_ is VMap) " + m + ")")
			} else {
				e.nopanic(st, l.Pos(), "nil-map-write", "((_ is VMap) "+m+")", exprString(l.X)+"[…] = …")
			}
			e.assignTo(l.X, "(VMap (store (mapOf "+m+") "+kx+" "+val+"))", st, ctx)
			if id, ok := l.X.(*ast.Ident); ok {
				if v, ok := info.ObjectOf(id).(*types.Var); ok {
					st.nonNil[v] = true
				}
			}
		case isRefMap(t):
			m := e.eval(l.X, st, ctx)
			kx := e.eval(l.Index, st, ctx)
			e.assignTo(l.X, "(store "+m+" "+kx+" "+val+")", st, ctx)
		case isTreeList(t):
			lst := e.eval(l.X, st, ctx)
			ix := e.eval(l.Index, st, ctx)
			e.nopanic(st, l.Pos(), "index", "(and (<= 0 "+ix+") (< "+ix+" (llen (ls "+lst+"))))", exprString(l))
			e.assignTo(l.X, "(VList (lset (ls "+lst+") "+ix+" "+val+"))", st, ctx)
		case isStringList(t):
			lst := "(sitems " + e.eval(l.X, st, ctx) + ")"
			ix := e.eval(l.Index, st, ctx)
			e.nopanic(st, l.Pos(), "index", "(and (<= 0 "+ix+") (< "+ix+" (sllen "+lst+")))", exprString(l))
			e.assignTo(l.X, "(Slice (slset "+lst+" "+ix+" "+val+"))", st, ctx)
		default:
			if _, ok := t.Underlying().(*types.Map); ok {
				e.eval(l.X, st, ctx)
				e.note("write to a map of type " + types.TypeString(t, shortQual) + " is not modelled")
				return
			}
			e.unsupported(l.Pos(), "index assignment on %s", t)
		}
	case *ast.SelectorExpr:
		sel, ok := info.Selections[l]
		if !ok || sel.Kind() != types.FieldVal {
			e.unsupported(l.Pos(), "assignment to %s", exprString(l))
		}
		rt := info.TypeOf(l.X)
		if _, isPtr := rt.Underlying().(*types.Pointer); !isPtr {
			e.note("write to a field of a struct value (" + exprString(l) + ") is not modelled")
			return
		}
		recv := e.eval(l.X, st, ctx)
		e.nopanic(st, l.Pos(), "nil-deref", "(not (= "+recv+" 0))", exprString(l))
		key := fieldKey(rt, l.Sel.Name)
		arr := e.heapArr(st, key, info.TypeOf(l))
		nv := "(store " + arr + " " + recv + " " + val + ")"
		if len(nv) > 200 {
			c := e.fresh(st, "H_"+sanitize(key), "(Array Int "+sortOf(info.TypeOf(l))+")")
			st.pc = append(st.pc, "(= "+c+" "+nv+")")
			nv = c
		}
		st.heap[key] = nv
	case *ast.StarExpr:
		e.eval(l.X, st, ctx)
		e.note("write through a pointer (" + exprString(l) + ") is not modelled")
	default:
		e.unsupported(lhs.Pos(), "assignment target %T", lhs)
	}
}

func (e *Exec) defineIfNew(lhs ast.Expr, ctx *Ctx) {}

func (e *Exec) execAssign(s *ast.AssignStmt, st *State, ctx *Ctx, k func(*State)) {
	info := e.info(ctx)
	// compound assignment
	if s.Tok != token.ASSIGN && s.Tok != token.DEFINE {
		if len(s.Lhs) != 1 {
			e.unsupported(s.Pos(), "compound assignment")
		}
		a := e.eval(s.Lhs[0], st, ctx)
		b := e.eval(s.Rhs[0], st, ctx)
		var r string
		switch s.Tok {
		case token.ADD_ASSIGN:
			if sortOf(e.typeOf(s.Lhs[0], ctx)) == "String" {
				r = "(str.++ " + a + " " + b + ")"
			} else {
				r = "(+ " + a + " " + b + ")"
			}
		case token.SUB_ASSIGN:
			r = "(- " + a + " " + b + ")"
		default:
			e.unsupported(s.Pos(), "compound assignment %s", s.Tok)
		}
		e.assignTo(s.Lhs[0], r, st, ctx)
		k(st)
		return
	}
	finish := func(st *State, vals []string) {
		for i, l := range s.Lhs {
			if i < len(vals) {
				e.assignTo(l, vals[i], st, ctx)
			}
		}
		k(st)
	}
	if len(s.Rhs) == 1 && len(s.Lhs) >= 2 {
		switch r := s.Rhs[0].(type) {
		case *ast.CallExpr:
			types_ := []types.Type{}
			for _, l := range s.Lhs {
				types_ = append(types_, e.lhsType(l, ctx))
			}
			if e.tryInline(r, st, ctx, func(st2 *State, vals []string) { finish(st2, e.convResults(r, vals, types_, ctx)) }) {
				return
			}
			vals := e.evalCall(r, st, ctx)
			finish(st, e.convResults(r, vals, types_, ctx))
			return
		case *ast.IndexExpr:
			v, found := e.evalIndex(r, st, ctx, true)
			if found == "" {
				e.unsupported(s.Pos(), "comma-ok index on non-map")
			}
			var elemT types.Type
			if mt, ok := e.typeOf(r.X, ctx).Underlying().(*types.Map); ok {
				elemT = mt.Elem()
			}
			v = e.conv(v, elemT, e.lhsType(s.Lhs[0], ctx))
			finish(st, []string{v, found})
			return
		case *ast.TypeAssertExpr:
			x := e.eval(r.X, st, ctx)
			t := info.TypeOf(r.Type)
			ok := typeCond(x, t)
			u := unwrapVal(x, t)
			var val string
			if u == "" {
				val = e.fresh(st, "assert", sortOf(t))
			} else {
				val = "(ite " + ok + " " + u + " " + zeroOf(t) + ")"
			}
			val = e.conv(val, t, e.lhsType(s.Lhs[0], ctx))
			finish(st, []string{val, ok})
			return
		}
		e.unsupported(s.Pos(), "multi-value assignment from %T", s.Rhs[0])
	}
	if len(s.Rhs) == 1 && len(s.Lhs) == 1 {
		if call, ok := s.Rhs[0].(*ast.CallExpr); ok {
			lt := e.lhsType(s.Lhs[0], ctx)
			if e.tryInline(call, st, ctx, func(st2 *State, vals []string) { finish(st2, e.convResults(call, vals, []types.Type{lt}, ctx)) }) {
				return
			}
		}
	}
	// parallel assignment: evaluate all right-hand sides first
	var vals []string
	for i, r := range s.Rhs {
		vals = append(vals, e.evalTo(r, e.lhsType(s.Lhs[i], ctx), st, ctx))
	}
	// deferred snapshot: a local map appended to a list and mutated afterwards is handled in evalCall(append)
	finish(st, vals)
}

func (e *Exec) execSwitch(s *ast.SwitchStmt, st *State, ctx *Ctx, k func(*State)) {
	run := func(st *State) {
		var tag string
		var tagT types.Type
		if s.Tag != nil {
			tag = e.eval(s.Tag, st, ctx)
			tagT = e.typeOf(s.Tag, ctx)
		}
		sctx := ctx.with("", k, nil)
		var negs []string
		var deflt *ast.CaseClause
		line := e.w.Fset.Position(s.Pos()).Line
		for ci, cc := range s.Body.List {
			cl := cc.(*ast.CaseClause)
			if cl.List == nil {
				deflt = cl
				continue
			}
			var conds []string
			for _, x := range cl.List {
				if s.Tag != nil {
					conds = append(conds, "(= "+tag+" "+e.evalTo(x, tagT, st, ctx)+")")
				} else {
					conds = append(conds, e.eval(x, st, ctx))
				}
			}
			c := conds[0]
			if len(conds) > 1 {
				c = "(or " + joinSp(conds) + ")"
			}
			b := st.clone()
			b.pc = append(b.pc, negs...)
			b.pc = append(b.pc, c)
			b.path = append(b.path, fmt.Sprintf("sw%dc%d", line, ci))
			for _, bs := range cl.Body {
				if br, ok := bs.(*ast.BranchStmt); ok && br.Tok == token.FALLTHROUGH {
					e.unsupported(br.Pos(), "fallthrough")
				}
			}
			e.execBlock(cl.Body, b, sctx, k)
			negs = append(negs, "(not "+c+")")
		}
		d := st.clone()
		d.pc = append(d.pc, negs...)
		d.path = append(d.path, fmt.Sprintf("sw%dd", line))
		if deflt != nil {
			e.execBlock(deflt.Body, d, sctx, k)
		} else {
			k(d)
		}
	}
	if s.Init != nil {
		e.execStmt(s.Init, st, ctx, run)
	} else {
		run(st)
	}
}

func joinSp(xs []string) string {
	out := ""
	for i, x := range xs {
		if i > 0 {
			out += " "
		}
		out += x
	}
	return out
}

func (e *Exec) execTypeSwitch(s *ast.TypeSwitchStmt, st *State, ctx *Ctx, k func(*State)) {
	run := func(st *State) {
		info := e.info(ctx)
		var x ast.Expr
		switch a := s.Assign.(type) {
		case *ast.AssignStmt:
			x = a.Rhs[0].(*ast.TypeAssertExpr).X
		case *ast.ExprStmt:
			x = a.X.(*ast.TypeAssertExpr).X
		}
		xt := e.typeOf(x, ctx)
		if !isAny(xt) {
			e.unsupported(s.Pos(), "type switch on %s", xt)
		}
		v := e.eval(x, st, ctx)
		sctx := ctx.with("", k, nil)
		var negs []string
		var deflt *ast.CaseClause
		line := e.w.Fset.Position(s.Pos()).Line
		for ci, cc := range s.Body.List {
			cl := cc.(*ast.CaseClause)
			if cl.List == nil {
				deflt = cl
				continue
			}
			var conds []string
			var oneT types.Type
			for _, tx := range cl.List {
				var t types.Type
				if id, ok := tx.(*ast.Ident); ok && id.Name == "nil" {
					t = nil
				} else {
					t = info.TypeOf(tx)
				}
				oneT = t
				conds = append(conds, typeCond(v, t))
			}
			c := conds[0]
			if len(conds) > 1 {
				c = "(or " + joinSp(conds) + ")"
			}
			b := st.clone()
			b.pc = append(b.pc, negs...)
			b.pc = append(b.pc, c)
			b.path = append(b.path, fmt.Sprintf("ts%dc%d", line, ci))
			if bv, ok := info.Implicits[cl].(*types.Var); ok {
				if len(cl.List) == 1 && oneT != nil {
					u := unwrapVal(v, oneT)
					if u == "" {
						u = e.fresh(b, bv.Name(), sortOf(oneT))
					}
					b.env[bv] = u
				} else {
					b.env[bv] = v
				}
			}
			e.execBlock(cl.Body, b, sctx, k)
			negs = append(negs, "(not "+c+")")
		}
		d := st.clone()
		d.pc = append(d.pc, negs...)
		d.path = append(d.path, fmt.Sprintf("ts%dd", line))
		if deflt != nil {
			if bv, ok := info.Implicits[deflt].(*types.Var); ok {
				d.env[bv] = v
			}
			e.execBlock(deflt.Body, d, sctx, k)
		} else {
			k(d)
		}
	}
	if s.Init != nil {
		e.execStmt(s.Init, st, ctx, run)
	} else {
		run(st)
	}
}
