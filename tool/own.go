package main

// OwnOb is an obligation of the ownership / frame / effects pass (backend "own": decided syntactically by the tool).
type OwnOb struct {
	Key  string
	Kind string
	OK   bool
	Pos  string
	Why  string
}

func ownPass(w *World, id string) []*OwnOb { return nil }
