package main

import (
	"fmt"
	"go/ast"
	"go/token"
	"go/types"
	"sort"
	"strings"
)

// OwnOb is an obligation of the ownership / frame / effects pass (backend "own": decided syntactically by the tool,
// by a flow-sensitive abstract interpretation of each function body; DESIGN §2.7).
type OwnOb struct {
	Key  string
	Kind string // own-not-borrowed own-moved-once own-write-site frame effects
	OK   bool
	Pos  string
	Why  string
	Tags []string
}

// ownership class of a tree-typed value: the set of sources it may share structure with.
//   heap    : stored documents / anything reached through a pointer or a package variable
//   bparams : parameters the function only borrows
//   dparams : parameters handed over by the caller (consumes / inplace / mutates) - owned here, but a result that
//             derives from them is only as good as the caller's argument
// A value is "borrowed" (must not be mutated, consumed or embedded) iff heap or bparams is non-empty.
type ocls struct {
	heap    bool
	bparams uint64
	dparams uint64
}

var (
	owned    = ocls{}
	borrowed = ocls{heap: true}
)

func (c ocls) isBorrowed() bool { return c.heap || c.bparams != 0 }

func joinCls(a, b ocls) ocls {
	return ocls{heap: a.heap || b.heap, bparams: a.bparams | b.bparams, dparams: a.dparams | b.dparams}
}

type ownState struct {
	cls     map[*types.Var]ocls
	shallow map[*types.Var]bool      // top level freshly allocated (maps.Clone / literal): direct key writes are fine
	moved   map[string]token.Pos     // "var:<name>@<pos>" or "field:T.f[base]" -> where it was given away
	freshP  map[*types.Var]psrc      // pointer (or pointer-list) variables: which objects they may refer to
	bottom  bool                     // no execution reaches this state yet (accumulators)
}

// psrc: the objects a pointer-typed value may refer to: objects allocated in this function (always allowed), the
// objects passed as parameter i (bit i+1; bit 0 = receiver), or anything else (other).
type psrc struct {
	params uint64
	other  bool
	known  bool
}

func (p psrc) fresh() bool { return p.known && p.params == 0 && !p.other }

func joinP(a, b psrc) psrc {
	if !a.known {
		return b
	}
	if !b.known {
		return a
	}
	return psrc{params: a.params | b.params, other: a.other || b.other, known: true}
}

var (
	pFresh = psrc{known: true}
	pOther = psrc{known: true, other: true}
)

func newOwnState() *ownState {
	return &ownState{cls: map[*types.Var]ocls{}, shallow: map[*types.Var]bool{}, moved: map[string]token.Pos{}, freshP: map[*types.Var]psrc{}, bottom: true}
}

func (s *ownState) clone() *ownState {
	n := &ownState{cls: map[*types.Var]ocls{}, shallow: map[*types.Var]bool{}, moved: map[string]token.Pos{}, freshP: map[*types.Var]psrc{}}
	for k, v := range s.cls {
		n.cls[k] = v
	}
	for k, v := range s.shallow {
		n.shallow[k] = v
	}
	for k, v := range s.moved {
		n.moved[k] = v
	}
	for k, v := range s.freshP {
		n.freshP[k] = v
	}
	return n
}

func (s *ownState) writable(v *types.Var) bool {
	c, ok := s.cls[v]
	return s.shallow[v] || (ok && !c.isBorrowed()) || !ok
}

func (s *ownState) join(o *ownState) {
	if o.bottom {
		return
	}
	if s.bottom {
		c := o.clone()
		s.cls, s.shallow, s.moved, s.freshP, s.bottom = c.cls, c.shallow, c.moved, c.freshP, false
		return
	}
	// top-level writability survives a join only if it holds on both sides
	sh := map[*types.Var]bool{}
	for k := range s.cls {
		if _, ok := o.cls[k]; ok && s.writable(k) && o.writable(k) {
			sh[k] = true
		}
	}
	for k, v := range o.cls {
		if cur, ok := s.cls[k]; ok {
			s.cls[k] = joinCls(cur, v)
		} else {
			s.cls[k] = v
			if o.shallow[k] {
				sh[k] = true
			}
		}
	}
	s.shallow = sh
	for k, v := range o.moved {
		if _, ok := s.moved[k]; !ok {
			s.moved[k] = v
		}
	}
	for k, v := range o.freshP {
		if cur, ok := s.freshP[k]; ok {
			s.freshP[k] = joinP(cur, v)
		} else {
			s.freshP[k] = v
		}
	}
}

type ownAnalyzer struct {
	w       *World
	fi      *FuncInfo
	info    *types.Info
	obs     map[string]*OwnOb
	order   []string
	cFields map[string]bool // "Document.Data[patch]" declared consumed
	mods    map[string]bool // declared modifies (field keys), nil if no modifies clause
	modBase map[string]string // field key -> base parameter name given as T.f[base] ("" = any object)
	writes  map[string]string // field key -> first position written (on a non-fresh object), incl. callees
	writeBases map[string]map[int]bool // field key -> which object: -1 receiver, i parameter i, -2 anything else
	retCls  ocls
	retObj  psrc
	lits    map[*types.Var]*ast.FuncLit
	depth   int
	retAcc  *ownState // states at return statements of the literal being analysed (they reach the next iteration)
	contAcc *ownState // states at continue statements of the innermost loop
}

func isTreeType(t types.Type) bool {
	return t != nil && (isAny(t) || isTreeMap(t) || isTreeList(t))
}

func paramMode(c *FuncContract, name string) string {
	if c == nil {
		return ""
	}
	switch {
	case contains(c.Consumes, name):
		return "consumes"
	case contains(c.Mutates, name):
		return "mutates"
	case contains(c.Inplace, name):
		return "inplace"
	}
	return ""
}

func (a *ownAnalyzer) pos(p token.Pos) string {
	pp := a.w.Fset.Position(p)
	return fmt.Sprintf("%s:%d", strings.TrimPrefix(pp.Filename, a.w.RepoDir+"/"), pp.Line)
}

func (a *ownAnalyzer) ob(kind, site string, ok bool, p token.Pos, why string) {
	key := a.fi.Key + "." + kind + "[" + site + "]"
	if o, exists := a.obs[key]; exists {
		if !ok && o.OK {
			o.OK, o.Why, o.Pos = false, why, a.pos(p)
		}
		return
	}
	a.obs[key] = &OwnOb{Key: key, Kind: kind, OK: ok, Pos: a.pos(p), Why: why}
	a.order = append(a.order, key)
}

// ownFunc analyses one function.
func ownFunc(w *World, fi *FuncInfo) []*OwnOb {
	a := &ownAnalyzer{w: w, fi: fi, info: fi.Pkg.TypesInfo, obs: map[string]*OwnOb{}, cFields: map[string]bool{}, writes: map[string]string{},
		lits: map[*types.Var]*ast.FuncLit{}, writeBases: map[string]map[int]bool{}}
	c := fi.Contract
	if c != nil {
		for _, x := range c.Consumes {
			if strings.Contains(x, ".") {
				a.cFields[x] = true
			}
		}
		if len(c.Modifies) > 0 {
			a.mods = map[string]bool{}
			a.modBase = map[string]string{}
			for _, m := range c.Modifies {
				if m == "nothing" {
					continue
				}
				key := m
				if i := strings.Index(m, "["); i >= 0 {
					key = m[:i]
					a.modBase[key] = strings.TrimSuffix(m[i+1:], "]")
				}
				a.mods[key] = true
			}
		}
	}
	st := &ownState{cls: map[*types.Var]ocls{}, shallow: map[*types.Var]bool{}, moved: map[string]token.Pos{}, freshP: map[*types.Var]psrc{}}
	sig := fi.Obj.Type().(*types.Signature)
	initPtrParams(sig, st)
	for i := 0; i < sig.Params().Len(); i++ {
		p := sig.Params().At(i)
		if !isTreeType(p.Type()) {
			continue
		}
		if paramMode(c, p.Name()) != "" {
			st.cls[p] = ocls{dparams: 1 << uint(i)}
		} else {
			st.cls[p] = ocls{bparams: 1 << uint(i)}
		}
	}
	a.block(fi.Decl.Body.List, st)
	// frame: every field written on a non-fresh object (here or in a callee) must be within the declared modifies
	if a.mods != nil {
		var ks []string
		for k := range a.writes {
			ks = append(ks, k)
		}
		sort.Strings(ks)
		for _, k := range ks {
			a.obs[fi.Key+".frame["+k+"]"] = &OwnOb{Key: fi.Key + ".frame[" + k + "]", Kind: "frame", OK: a.mods[k], Pos: a.writes[k],
				Why: "writes " + k + " (directly or through a callee) but the contract's modifies clause does not list it"}
			a.order = append(a.order, fi.Key+".frame["+k+"]")
		}
		if len(ks) == 0 {
			k := fi.Key + ".frame[nothing-written]"
			a.obs[k] = &OwnOb{Key: k, Kind: "frame", OK: true, Pos: a.pos(fi.Decl.Pos()), Why: "no struct field of a non-fresh object is written, here or in any callee"}
			a.order = append(a.order, k)
		}
	}
	var out []*OwnOb
	seen := map[string]bool{}
	for _, k := range a.order {
		if !seen[k] {
			seen[k] = true
			out = append(out, a.obs[k])
		}
	}
	out = append(out, sliceAliasObs(w, fi)...)
	out = append(out, resliceObs(w, fi)...)
	out = append(out, nilListObs(w, fi)...)
	out = append(out, closureWriteObs(w, fi)...)
	// helpers executed through their bodies (filterList, filterMap) have no obligations of their own in a cone: what
	// they do to their slice arguments is checked with every function that runs them
	for _, c := range w.callees[fi] {
		if inlinable(c) {
			out = append(out, sliceAliasObs(w, c)...)
			out = append(out, resliceObs(w, c)...)
			out = append(out, nilListObs(w, c)...)
		}
	}
	out = append(out, orderObs(w, fi)...)
	return out
}

// orderObs: `order A#i B#j` clauses. Both call sites must exist and the top-level statement of the function body that
// contains A#i must come before the one that contains B#j (statements of one block run in source order).
func orderObs(w *World, fi *FuncInfo) []*OwnOb {
	if fi.Contract == nil || len(fi.Contract.Orders) == 0 {
		return nil
	}
	info := fi.Pkg.TypesInfo
	cnt := map[string]int{}
	stmtOf := map[string]int{}
	for si, st := range fi.Decl.Body.List {
		ast.Inspect(st, func(n ast.Node) bool {
			c, ok := n.(*ast.CallExpr)
			if !ok {
				return true
			}
			var id *ast.Ident
			switch f := c.Fun.(type) {
			case *ast.Ident:
				id = f
			case *ast.SelectorExpr:
				id = f.Sel
			}
			if id == nil {
				return true
			}
			fn, ok := info.Uses[id].(*types.Func)
			if !ok {
				return true
			}
			callee := w.ByObj[fn]
			if callee == nil {
				return true
			}
			cnt[callee.Name]++
			stmtOf[fmt.Sprintf("%s#%d", callee.Name, cnt[callee.Name])] = si
			return true
		})
	}
	var out []*OwnOb
	pp := w.Fset.Position(fi.Decl.Pos())
	pos := fmt.Sprintf("%s:%d", strings.TrimPrefix(pp.Filename, w.RepoDir+"/"), pp.Line)
	for _, o := range fi.Contract.Orders {
		a, okA := stmtOf[o[0]]
		b, okB := stmtOf[o[1]]
		out = append(out, &OwnOb{Key: fmt.Sprintf("%s.order[%s before %s]", fi.Key, o[0], o[1]), Kind: "effects", OK: okA && okB && a < b, Pos: pos,
			Why: fmt.Sprintf("%s must run before %s (both must exist; found statements %d and %d, present %v/%v)", o[0], o[1], a, b, okA, okB)})
	}
	return out
}

// sliceAliasObs: a slice-typed parameter that is not a tree ([]*Document, []string, ...) shares its backing array with
// the caller's slice. Storing it (or a reslice of it) into a struct field, a package variable or a composite literal,
// or appending to it, makes two owners write through one array (a later append on either side overwrites the other's
// elements). Values are sequences in the functional obligations, so this is an ownership obligation: such a parameter
// may only be read, unless the contract declares it consumed.
func sliceAliasObs(w *World, fi *FuncInfo) []*OwnOb {
	info := fi.Pkg.TypesInfo
	sig := fi.Obj.Type().(*types.Signature)
	params := map[*types.Var]bool{}
	for i := 0; i < sig.Params().Len(); i++ {
		p := sig.Params().At(i)
		if _, isSlice := p.Type().Underlying().(*types.Slice); isSlice && !isTreeType(p.Type()) && !isByteSlice(p.Type()) {
			if fi.Contract == nil || !contains(fi.Contract.Consumes, p.Name()) {
				params[p] = true
			}
		}
	}
	if len(params) == 0 {
		return nil
	}
	// parameters that are reassigned are no longer the caller's slice for certain; stay conservative and keep them
	var root func(x ast.Expr) *types.Var
	root = func(x ast.Expr) *types.Var {
		switch y := x.(type) {
		case *ast.ParenExpr:
			return root(y.X)
		case *ast.SliceExpr:
			return root(y.X)
		case *ast.Ident:
			if v, ok := info.ObjectOf(y).(*types.Var); ok && params[v] {
				return v
			}
		case *ast.CallExpr:
			if id, ok := y.Fun.(*ast.Ident); ok && id.Name == "append" && len(y.Args) > 0 {
				if _, isB := info.Uses[id].(*types.Builtin); isB {
					return root(y.Args[0])
				}
			}
		}
		return nil
	}
	var out []*OwnOb
	posOf := func(p token.Pos) string {
		pp := w.Fset.Position(p)
		return fmt.Sprintf("%s:%d", strings.TrimPrefix(pp.Filename, w.RepoDir+"/"), pp.Line)
	}
	add := func(what string, v *types.Var, p token.Pos) {
		out = append(out, &OwnOb{Key: fmt.Sprintf("%s.own-slice-alias[%s <- %s]", fi.Key, what, v.Name()), Kind: "own-not-borrowed", OK: false, Pos: posOf(p),
			Why: "the slice parameter " + v.Name() + " (the caller's backing array) is stored or appended to: two owners then write through one array; copy it (append to a fresh slice) or declare it consumed"})
	}
	ast.Inspect(fi.Decl.Body, func(n ast.Node) bool {
		switch y := n.(type) {
		case *ast.AssignStmt:
			for i, r := range y.Rhs {
				v := root(r)
				if v == nil || i >= len(y.Lhs) {
					continue
				}
				switch l := y.Lhs[i].(type) {
				case *ast.Ident:
					// a local: only an append on the parameter itself is a write through the caller's array
					if _, isCall := r.(*ast.CallExpr); isCall {
						add("append", v, y.Pos())
					} else if lv, ok := info.ObjectOf(l).(*types.Var); ok && lv.Pkg() != nil && lv.Parent() == lv.Pkg().Scope() {
						add(l.Name, v, y.Pos())
					}
				default:
					add(exprString(y.Lhs[i]), v, y.Pos())
				}
			}
		case *ast.KeyValueExpr:
			if v := root(y.Value); v != nil {
				add(exprString(y.Key), v, y.Pos())
			}
		case *ast.CallExpr:
			// library functions that rewrite their slice argument in place
			switch exprString(y.Fun) {
			case "slices.DeleteFunc", "slices.Delete", "slices.Insert", "slices.Replace", "slices.Sort", "slices.SortFunc", "slices.SortStableFunc",
				"slices.Reverse", "slices.Compact", "slices.CompactFunc", "sort.Slice", "sort.SliceStable", "sort.Strings", "clear", "copy":
				if len(y.Args) > 0 {
					if v := root(y.Args[0]); v != nil {
						add(exprString(y.Fun), v, y.Pos())
					}
				}
			}
		case *ast.ReturnStmt:
			for _, r := range y.Results {
				if c, ok := r.(*ast.CallExpr); ok {
					if v := root(c); v != nil {
						add("return append", v, y.Pos())
					}
				}
			}
		}
		return true
	})
	return out
}

// resliceObs: the functional obligations treat lists as values, so `ret := l[:0]` is an empty list there. In Go it is a
// window onto l's backing array, and appending to a window that ends before its base does overwrites the base's
// elements (the "filter in place" idiom). That is a write to every holder of the base list: it is an obligation failure
// unless the base is a list this function built itself (a local that is only ever assigned literals, make(...) or appends
// to itself). A three-index slice x[a:b:b] has no spare capacity and is a copy-on-append: not reported.
func resliceObs(w *World, fi *FuncInfo) []*OwnOb {
	info := fi.Pkg.TypesInfo
	if fi.Decl == nil || fi.Decl.Body == nil {
		return nil
	}
	varOf := func(x ast.Expr) *types.Var {
		if id, ok := x.(*ast.Ident); ok {
			if v, ok := info.ObjectOf(id).(*types.Var); ok {
				return v
			}
		}
		return nil
	}
	isAppend := func(c *ast.CallExpr) bool {
		if id, ok := c.Fun.(*ast.Ident); ok && id.Name == "append" && len(c.Args) > 0 {
			_, isB := info.Uses[id].(*types.Builtin)
			return isB
		}
		return false
	}
	// locals that are only ever built here
	params := map[*types.Var]bool{}
	sig := fi.Obj.Type().(*types.Signature)
	for i := 0; i < sig.Params().Len(); i++ {
		params[sig.Params().At(i)] = true
	}
	notFresh := map[*types.Var]bool{}
	var freshExpr func(x ast.Expr, self *types.Var) bool
	freshExpr = func(x ast.Expr, self *types.Var) bool {
		switch y := x.(type) {
		case *ast.ParenExpr:
			return freshExpr(y.X, self)
		case *ast.CompositeLit:
			return true
		case *ast.CallExpr:
			if id, ok := y.Fun.(*ast.Ident); ok && id.Name == "make" {
				return true
			}
			if isAppend(y) {
				return varOf(y.Args[0]) == self || freshExpr(y.Args[0], self)
			}
		case *ast.Ident:
			return y.Name == "nil"
		}
		return false
	}
	ast.Inspect(fi.Decl.Body, func(n ast.Node) bool {
		switch y := n.(type) {
		case *ast.AssignStmt:
			for i, l := range y.Lhs {
				v := varOf(l)
				if v == nil {
					continue
				}
				if len(y.Rhs) != len(y.Lhs) || !freshExpr(y.Rhs[i], v) {
					notFresh[v] = true
				}
			}
		case *ast.RangeStmt:
			for _, l := range []ast.Expr{y.Key, y.Value} {
				if l != nil {
					if v := varOf(l); v != nil {
						notFresh[v] = true
					}
				}
			}
		}
		return true
	})
	built := func(v *types.Var) bool {
		return v != nil && !params[v] && !notFresh[v] && v.Pkg() != nil && v.Parent() != v.Pkg().Scope()
	}
	// base(x): the list whose backing array a shortened window x[..:hi] looks at; nil if x is not such a window
	var base func(x ast.Expr) ast.Expr
	short := map[*types.Var]ast.Expr{}
	base = func(x ast.Expr) ast.Expr {
		switch y := x.(type) {
		case *ast.ParenExpr:
			return base(y.X)
		case *ast.SliceExpr:
			if _, isSlice := info.TypeOf(y.X).Underlying().(*types.Slice); !isSlice {
				return nil // strings are immutable, arrays are not used
			}
			if y.High != nil && !y.Slice3 {
				return y.X
			}
			return base(y.X)
		case *ast.Ident:
			if v := varOf(y); v != nil {
				return short[v]
			}
		case *ast.CallExpr:
			if isAppend(y) {
				return base(y.Args[0])
			}
		}
		return nil
	}
	// windows held in locals (two rounds: a window assigned from a window)
	for round := 0; round < 2; round++ {
		ast.Inspect(fi.Decl.Body, func(n ast.Node) bool {
			if as, ok := n.(*ast.AssignStmt); ok && len(as.Lhs) == len(as.Rhs) {
				for i, l := range as.Lhs {
					if v := varOf(l); v != nil {
						if b := base(as.Rhs[i]); b != nil && short[v] == nil {
							short[v] = b
						}
					}
				}
			}
			return true
		})
	}
	var out []*OwnOb
	seen := map[string]bool{}
	report := func(what string, b ast.Expr, p token.Pos) {
		if bv := varOf(b); built(bv) {
			return
		}
		key := fmt.Sprintf("%s.own-reslice-append[%s over %s]", fi.Key, what, exprString(b))
		if seen[key] {
			return
		}
		seen[key] = true
		pp := w.Fset.Position(p)
		out = append(out, &OwnOb{Key: key, Kind: "own-not-borrowed", OK: false, Pos: fmt.Sprintf("%s:%d", strings.TrimPrefix(pp.Filename, w.RepoDir+"/"), pp.Line),
			Why: "appending to a window that ends before its base list (" + exprString(b) + ") overwrites the elements of that list for every holder of it; build the result in a fresh list"})
	}
	ast.Inspect(fi.Decl.Body, func(n ast.Node) bool {
		c, ok := n.(*ast.CallExpr)
		if !ok {
			return true
		}
		if isAppend(c) {
			if b := base(c.Args[0]); b != nil {
				report("append", b, c.Pos())
			}
			return true
		}
		switch exprString(c.Fun) {
		case "slices.DeleteFunc", "slices.Delete", "slices.Insert", "slices.Replace", "slices.Compact", "slices.CompactFunc", "copy":
			if len(c.Args) > 0 {
				if b := base(c.Args[0]); b != nil {
					report(exprString(c.Fun), b, c.Pos())
				}
			}
		}
		return true
	})
	return out
}

// nilListObs: in the model a list is its sequence of elements, so a nil []any and an empty one are the same value. In Go
// they are not (JSON prints null for one and [] for the other, reflect.DeepEqual tells them apart), and every list the
// library builds today starts from a literal. A list variable that starts out nil (`var ret []any`, `ret = nil`) and is
// then returned or stored in a tree is therefore an obligation failure: what it denotes when nothing is appended is not
// what the functional obligations say.
func nilListObs(w *World, fi *FuncInfo) []*OwnOb {
	if fi.Decl == nil || fi.Decl.Body == nil {
		return nil
	}
	info := fi.Pkg.TypesInfo
	nilVars := map[*types.Var]token.Pos{}
	ast.Inspect(fi.Decl.Body, func(n ast.Node) bool {
		switch y := n.(type) {
		case *ast.ValueSpec:
			if len(y.Values) == 0 {
				for _, nm := range y.Names {
					if v, ok := info.Defs[nm].(*types.Var); ok && isTreeList(v.Type()) {
						nilVars[v] = nm.Pos()
					}
				}
			}
		case *ast.AssignStmt:
			if len(y.Lhs) == len(y.Rhs) {
				for i, l := range y.Lhs {
					id, ok := l.(*ast.Ident)
					if !ok {
						continue
					}
					v, _ := info.ObjectOf(id).(*types.Var)
					if v == nil || !isTreeList(v.Type()) {
						continue
					}
					r := y.Rhs[i]
					if c, isConv := r.(*ast.CallExpr); isConv && len(c.Args) == 1 {
						if tv, ok := info.Types[c.Fun]; ok && tv.IsType() {
							r = c.Args[0]
						}
					}
					if rid, ok := r.(*ast.Ident); ok && rid.Name == "nil" {
						nilVars[v] = id.Pos()
					}
				}
			}
		}
		return true
	})
	if len(nilVars) == 0 {
		return nil
	}
	isNilVar := func(x ast.Expr) *types.Var {
		for {
			p, ok := x.(*ast.ParenExpr)
			if !ok {
				break
			}
			x = p.X
		}
		if id, ok := x.(*ast.Ident); ok {
			if v, ok := info.ObjectOf(id).(*types.Var); ok {
				if _, is := nilVars[v]; is {
					return v
				}
			}
		}
		return nil
	}
	escapes := map[*types.Var]string{}
	ast.Inspect(fi.Decl.Body, func(n ast.Node) bool {
		switch y := n.(type) {
		case *ast.FuncLit:
			return true
		case *ast.ReturnStmt:
			for _, r := range y.Results {
				if v := isNilVar(r); v != nil {
					escapes[v] = "returned"
				}
			}
		case *ast.AssignStmt:
			for i, l := range y.Lhs {
				if _, isId := l.(*ast.Ident); isId {
					continue
				}
				if i < len(y.Rhs) {
					if v := isNilVar(y.Rhs[i]); v != nil {
						escapes[v] = "stored in " + exprString(l)
					}
				}
			}
		case *ast.KeyValueExpr:
			if v := isNilVar(y.Value); v != nil {
				escapes[v] = "stored in a literal"
			}
		case *ast.CompositeLit:
			for _, el := range y.Elts {
				if v := isNilVar(el); v != nil {
					escapes[v] = "stored in a literal"
				}
			}
		case *ast.CallExpr:
			if id, ok := y.Fun.(*ast.Ident); ok && id.Name == "append" && y.Ellipsis == token.NoPos {
				for _, a := range y.Args[1:] {
					if v := isNilVar(a); v != nil {
						escapes[v] = "appended as an element"
					}
				}
			}
		}
		return true
	})
	var out []*OwnOb
	for v, how := range escapes {
		pp := w.Fset.Position(nilVars[v])
		out = append(out, &OwnOb{Key: fmt.Sprintf("%s.own-nil-list[%s]", fi.Key, v.Name()), Kind: "own-not-borrowed", OK: false,
			Pos: fmt.Sprintf("%s:%d", strings.TrimPrefix(pp.Filename, w.RepoDir+"/"), pp.Line),
			Why: "the list " + v.Name() + " starts out nil and is " + how + ": a nil list is not the empty list (JSON prints null, DeepEqual differs); start from a literal"})
	}
	sort.Slice(out, func(i, j int) bool { return out[i].Key < out[j].Key })
	return out
}

// closureWriteObs: the per-entry callback of a list / map pass (a function literal handed to filterList or filterMap)
// communicates through its RESULT - that is what the loop contracts of those helpers describe. A write to a captured
// variable (assignment, append, index store, delete, maps.Copy, copy) is a side channel past those contracts: it is an
// obligation failure unless the function's contract declares it (`effects closure-write:<variable>`).
func closureWriteObs(w *World, fi *FuncInfo) []*OwnOb {
	if fi.Decl == nil || fi.Decl.Body == nil {
		return nil
	}
	info := fi.Pkg.TypesInfo
	declared := map[string]bool{}
	if fi.Contract != nil {
		for _, e := range fi.Contract.Effects {
			if strings.HasPrefix(e, "closure-write:") {
				declared[strings.TrimPrefix(e, "closure-write:")] = true
			}
		}
	}
	var out []*OwnOb
	seen := map[string]bool{}
	ast.Inspect(fi.Decl.Body, func(n ast.Node) bool {
		call, ok := n.(*ast.CallExpr)
		if !ok {
			return true
		}
		callee := w.calleeOfCall(call, info)
		if callee == nil || !inlinable(callee) {
			return true
		}
		for _, a := range call.Args {
			lit, isLit := a.(*ast.FuncLit)
			if !isLit {
				continue
			}
			captured := func(x ast.Expr) *types.Var {
				for {
					switch y := x.(type) {
					case *ast.ParenExpr:
						x = y.X
						continue
					case *ast.IndexExpr:
						x = y.X
						continue
					case *ast.SelectorExpr:
						x = y.X
						continue
					case *ast.StarExpr:
						x = y.X
						continue
					}
					break
				}
				id, isId := x.(*ast.Ident)
				if !isId {
					return nil
				}
				v, isVar := info.ObjectOf(id).(*types.Var)
				if !isVar || v.Pkg() == nil || v.Parent() == v.Pkg().Scope() {
					return nil
				}
				if v.Pos() >= lit.Pos() && v.Pos() <= lit.End() {
					return nil // declared inside the literal (parameters, results, locals)
				}
				return v
			}
			report := func(v *types.Var, p token.Pos, how string) {
				if v == nil || declared[v.Name()] {
					return
				}
				key := fmt.Sprintf("%s.own-closure-write[%s]", fi.Key, v.Name())
				if seen[key] {
					return
				}
				seen[key] = true
				pp := w.Fset.Position(p)
				out = append(out, &OwnOb{Key: key, Kind: "own-not-borrowed", OK: false, Pos: fmt.Sprintf("%s:%d", strings.TrimPrefix(pp.Filename, w.RepoDir+"/"), pp.Line),
					Why: "the callback handed to " + callee.Name + " writes the captured variable " + v.Name() + " (" + how + "): a side channel past the helper's loop contract, which only speaks about the callback's result; return the value, or declare it (effects closure-write:" + v.Name() + ")"})
			}
			ast.Inspect(lit.Body, func(m ast.Node) bool {
				switch y := m.(type) {
				case *ast.AssignStmt:
					if y.Tok == token.DEFINE {
						return true
					}
					for _, l := range y.Lhs {
						report(captured(l), y.Pos(), "assignment")
					}
				case *ast.IncDecStmt:
					report(captured(y.X), y.Pos(), "increment")
				case *ast.CallExpr:
					switch exprString(y.Fun) {
					case "delete", "maps.Copy", "copy", "clear":
						if len(y.Args) > 0 {
							report(captured(y.Args[0]), y.Pos(), exprString(y.Fun))
						}
					}
				}
				return true
			})
		}
		return true
	})
	return out
}

func isPtrish(t types.Type) bool { return t != nil && (isPtrToStruct(t) || isRefList(t)) }

func initPtrParams(sig *types.Signature, st *ownState) {
	if r := sig.Recv(); r != nil && isPtrish(r.Type()) {
		st.freshP[r] = psrc{known: true, params: 1}
	}
	for i := 0; i < sig.Params().Len() && i < 62; i++ {
		if p := sig.Params().At(i); isPtrish(p.Type()) {
			st.freshP[p] = psrc{known: true, params: 1 << uint(i+1)}
		}
	}
}

func (a *ownAnalyzer) block(stmts []ast.Stmt, st *ownState) {
	for _, s := range stmts {
		a.stmt(s, st)
	}
}

func (a *ownAnalyzer) varOf(x ast.Expr) *types.Var {
	for {
		if p, ok := x.(*ast.ParenExpr); ok {
			x = p.X
			continue
		}
		break
	}
	id, ok := x.(*ast.Ident)
	if !ok {
		return nil
	}
	v, _ := a.info.ObjectOf(id).(*types.Var)
	return v
}

func (a *ownAnalyzer) stmt(s ast.Stmt, st *ownState) {
	switch s := s.(type) {
	case *ast.BlockStmt:
		a.block(s.List, st)
	case *ast.ExprStmt:
		a.expr(s.X, st)
	case *ast.AssignStmt:
		a.assign(s, st)
	case *ast.DeclStmt:
		if gd, ok := s.Decl.(*ast.GenDecl); ok {
			for _, sp := range gd.Specs {
				if vs, ok := sp.(*ast.ValueSpec); ok {
					for i, n := range vs.Names {
						v, _ := a.info.Defs[n].(*types.Var)
						if v == nil {
							continue
						}
						if i < len(vs.Values) {
							st.cls[v] = a.expr(vs.Values[i], st)
						} else {
							st.cls[v] = owned
						}
					}
				}
			}
		}
	case *ast.IncDecStmt:
	case *ast.ReturnStmt:
		for ri, r := range s.Results {
			c := a.expr(r, st)
			if a.retAcc == nil && isTreeType(a.info.TypeOf(r)) {
				a.retCls = joinCls(a.retCls, c)
			}
			if a.retAcc == nil && ri == 0 {
				if t := a.info.TypeOf(r); isPtrish(t) {
					a.retObj = joinP(a.retObj, a.ptrSrc(r, st))
				} else if tt, ok := t.(*types.Tuple); ok && tt.Len() > 0 && isPtrish(tt.At(0).Type()) {
					a.retObj = joinP(a.retObj, a.ptrSrc(r, st))
				}
			}
			if a.retAcc == nil {
				if call, ok := r.(*ast.CallExpr); ok && len(s.Results) == 1 {
					cs, _, _ := a.callQuiet(call, st)
					for _, cc := range cs {
						a.retCls = joinCls(a.retCls, cc)
					}
				}
			}
		}
		if a.retAcc != nil {
			a.retAcc.join(st.clone())
		}
	case *ast.IfStmt:
		if s.Init != nil {
			a.stmt(s.Init, st)
		}
		a.expr(s.Cond, st)
		t := st.clone()
		a.block(s.Body.List, t)
		if s.Else != nil {
			a.stmt(s.Else, st)
		}
		if !endsInReturn(s.Body.List) {
			st.join(t)
		}
	case *ast.SwitchStmt:
		if s.Init != nil {
			a.stmt(s.Init, st)
		}
		if s.Tag != nil {
			a.expr(s.Tag, st)
		}
		base := st.clone()
		for _, cc := range s.Body.List {
			cl := cc.(*ast.CaseClause)
			b := base.clone()
			for _, x := range cl.List {
				a.expr(x, b)
			}
			a.block(cl.Body, b)
			if !endsInReturn(cl.Body) {
				st.join(b)
			}
		}
	case *ast.TypeSwitchStmt:
		if s.Init != nil {
			a.stmt(s.Init, st)
		}
		var x ast.Expr
		switch as := s.Assign.(type) {
		case *ast.AssignStmt:
			x = as.Rhs[0].(*ast.TypeAssertExpr).X
		case *ast.ExprStmt:
			x = as.X.(*ast.TypeAssertExpr).X
		}
		c := a.expr(x, st)
		src := a.varOf(x)
		base := st.clone()
		for _, cc := range s.Body.List {
			cl := cc.(*ast.CaseClause)
			b := base.clone()
			if bv, ok := a.info.Implicits[cl].(*types.Var); ok {
				b.cls[bv] = c
				if src != nil && b.shallow[src] {
					b.shallow[bv] = true
				}
			}
			a.block(cl.Body, b)
			if !endsInReturn(cl.Body) {
				st.join(b)
			}
		}
	case *ast.ForStmt:
		if s.Init != nil {
			a.stmt(s.Init, st)
		}
		for i := 0; i < 2; i++ {
			if s.Cond != nil {
				a.expr(s.Cond, st)
			}
			b := st.clone()
			saveC := a.contAcc
			a.contAcc = newOwnState()
			a.block(s.Body.List, b)
			b.join(a.contAcc)
			a.contAcc = saveC
			if s.Post != nil {
				a.stmt(s.Post, b)
			}
			st.join(b)
		}
	case *ast.RangeStmt:
		c := a.expr(s.X, st)
		for i := 0; i < 2; i++ {
			b := st.clone()
			for _, lv := range []ast.Expr{s.Key, s.Value} {
				if lv == nil {
					continue
				}
				if v := a.varOf(lv); v != nil {
					if isPtrish(v.Type()) {
						b.freshP[v] = a.ptrSrc(s.X, st)
					}
					if isTreeType(v.Type()) {
						b.cls[v] = c
					}
					for k := range b.moved { // the loop variable is bound afresh in every iteration
						if strings.HasPrefix(k, "var:"+v.Name()+"@") && strings.HasSuffix(k, fmt.Sprintf("#%p", v)) {
							delete(b.moved, k)
						}
					}
				}
			}
			if kx, ok := s.Key.(*ast.Ident); ok && s.Value == nil {
				_ = kx
			}
			saveC := a.contAcc
			a.contAcc = newOwnState()
			a.block(s.Body.List, b)
			b.join(a.contAcc)
			a.contAcc = saveC
			st.join(b)
		}
	case *ast.LabeledStmt:
		a.stmt(s.Stmt, st)
	case *ast.DeferStmt:
		a.expr(s.Call, st)
	case *ast.BranchStmt:
		if a.contAcc != nil {
			a.contAcc.join(st.clone())
		}
	case *ast.EmptyStmt:
	}
}

func endsInReturn(stmts []ast.Stmt) bool {
	if len(stmts) == 0 {
		return false
	}
	switch l := stmts[len(stmts)-1].(type) {
	case *ast.ReturnStmt:
		return true
	case *ast.ExprStmt:
		if c, ok := l.X.(*ast.CallExpr); ok {
			if id, ok := c.Fun.(*ast.Ident); ok && (id.Name == "fatal" || id.Name == "panic") {
				return true
			}
		}
	}
	return false
}

func (a *ownAnalyzer) assign(s *ast.AssignStmt, st *ownState) {
	var rcls []ocls
	var rshallow []bool
	var rfreshP []psrc
	if len(s.Rhs) == 1 && len(s.Lhs) > 1 {
		cs, sh, _ := a.exprMulti(s.Rhs[0], st, len(s.Lhs))
		rcls, rshallow = cs, sh
		for range s.Lhs {
			rfreshP = append(rfreshP, a.ptrSrc(s.Rhs[0], st))
		}
	} else {
		for _, r := range s.Rhs {
			c := a.expr(r, st)
			rcls = append(rcls, c)
			rshallow = append(rshallow, a.isShallowFresh(r, st))
			rfreshP = append(rfreshP, a.ptrSrc(r, st))
		}
	}
	for i, l := range s.Lhs {
		var c ocls = owned
		if i < len(rcls) {
			c = rcls[i]
		}
		switch lx := l.(type) {
		case *ast.Ident:
			v := a.varOf(lx)
			if v == nil {
				continue
			}
			st.cls[v] = c
			st.shallow[v] = i < len(rshallow) && rshallow[i]
			if isPtrish(v.Type()) {
				if i < len(rfreshP) {
					st.freshP[v] = rfreshP[i]
				} else {
					st.freshP[v] = pOther
				}
			}
			// a reassigned variable is live again
			for k := range st.moved {
				if strings.HasPrefix(k, "var:"+v.Name()+"@") {
					delete(st.moved, k)
				}
			}
		case *ast.IndexExpr:
			a.expr(lx.Index, st)
			bv := a.varOf(lx.X)
			t := a.info.TypeOf(lx.X)
			if isTreeMap(t) || isTreeList(t) {
				bc := a.expr(lx.X, st)
				okW := !bc.isBorrowed() || (bv != nil && st.writable(bv))
				a.ob("own-write-site", exprString(lx.X)+"[…]", okW, lx.Pos(),
					"in-place write to "+exprString(lx.X)+", which may be reachable by the caller or from stored documents (declare the parameter consumes/inplace/mutates, or write to a copy)")
				// storing a borrowed value into an owned container makes the container share borrowed data: embedding
				if !bc.isBorrowed() && c.isBorrowed() && bv != nil && i < len(s.Rhs) && isTreeType(a.info.TypeOf(s.Rhs[i])) {
					st.cls[bv] = joinCls(bc, c)
					st.shallow[bv] = true
				} else if bv != nil && i < len(s.Rhs) && isTreeType(a.info.TypeOf(s.Rhs[i])) {
					st.cls[bv] = joinCls(bc, c)
				}
			}
		case *ast.SelectorExpr:
			a.fieldWrite(lx, st)

		}
	}
}

// fieldWrite records a write to x.f; writes to objects allocated in this function do not count for the frame.
func (a *ownAnalyzer) fieldWrite(lx *ast.SelectorExpr, st *ownState) {
	sel, ok := a.info.Selections[lx]
	if !ok || sel.Kind() != types.FieldVal {
		return
	}
	rt := a.info.TypeOf(lx.X)
	if _, isPtr := rt.Underlying().(*types.Pointer); !isPtr {
		return
	}
	a.recordWriteTo(fieldKey(rt, lx.Sel.Name), a.ptrSrc(lx.X, st), a.pos(lx.Pos()))
}

// recordWriteTo records a field write for every object the base pointer may refer to (none for fresh objects).
func (a *ownAnalyzer) recordWriteTo(key string, p psrc, pos string) {
	if !p.known || p.other {
		a.recordWrite(key, -2, pos)
	}
	for i := 0; i < 63; i++ {
		if p.params&(1<<uint(i)) != 0 {
			a.recordWrite(key, i-1, pos)
		}
	}
}

// ptrSrc computes which objects a pointer-typed (or pointer-list-typed) expression may refer to.
func (a *ownAnalyzer) ptrSrc(x ast.Expr, st *ownState) psrc {
	if !isPtrish(a.info.TypeOf(x)) {
		if t, ok := a.info.TypeOf(x).(*types.Tuple); !ok || t.Len() == 0 || !isPtrish(t.At(0).Type()) {
			return pOther
		}
	}
	switch y := x.(type) {
	case *ast.ParenExpr:
		return a.ptrSrc(y.X, st)
	case *ast.Ident:
		if y.Name == "nil" {
			return pFresh
		}
		if v := a.varOf(y); v != nil {
			if p, ok := st.freshP[v]; ok {
				return p
			}
		}
		return pOther
	case *ast.UnaryExpr:
		if y.Op == token.AND {
			if _, ok := y.X.(*ast.CompositeLit); ok {
				return pFresh
			}
		}
		return pOther
	case *ast.CompositeLit:
		p := pFresh
		for _, el := range y.Elts {
			if kv, ok := el.(*ast.KeyValueExpr); ok {
				el = kv.Value
			}
			p = joinP(p, a.ptrSrc(el, st))
		}
		return p
	case *ast.IndexExpr:
		return a.ptrSrc(y.X, st)
	case *ast.SliceExpr:
		return a.ptrSrc(y.X, st)
	case *ast.CallExpr:
		if id, ok := y.Fun.(*ast.Ident); ok {
			if b, ok := a.info.Uses[id].(*types.Builtin); ok && b.Name() == "append" {
				p := pFresh
				for _, ar := range y.Args {
					p = joinP(p, a.ptrSrc(ar, st))
				}
				return p
			}
		}
		callee := a.w.calleeOfCall(y, a.info)
		if callee == nil {
			return pOther
		}
		sum := a.w.retObjSummary(callee)
		if !sum.known || sum.other {
			return pOther
		}
		p := pFresh
		if sum.params&1 != 0 {
			if sel, ok := y.Fun.(*ast.SelectorExpr); ok {
				p = joinP(p, a.ptrSrc(sel.X, st))
			} else {
				return pOther
			}
		}
		for i := 0; i < len(y.Args) && i < 62; i++ {
			if sum.params&(1<<uint(i+1)) != 0 {
				p = joinP(p, a.ptrSrc(y.Args[i], st))
			}
		}
		return p
	}
	return pOther
}

func (a *ownAnalyzer) isShallowFresh(x ast.Expr, st *ownState) bool {
	switch y := x.(type) {
	case *ast.CompositeLit:
		return true
	case *ast.CallExpr:
		name := a.extCallName(y)
		switch name {
		case "maps.Clone", "slices.Clone", "golang.org/x/exp/slices.Clone", "golang.org/x/exp/maps.Clone", "make":
			return true
		}
		if callee := a.w.calleeOfCall(y, a.info); callee != nil && callee.Contract != nil && callee.Contract.Fresh {
			return true
		}
	}
	return false
}

func (a *ownAnalyzer) isFreshPtr(x ast.Expr, st *ownState) bool {
	return a.ptrSrc(x, st).fresh()
}

func (a *ownAnalyzer) isFreshPtrOld(x ast.Expr, st *ownState) bool {
	switch y := x.(type) {
	case *ast.UnaryExpr:
		if y.Op == token.AND {
			_, ok := y.X.(*ast.CompositeLit)
			return ok
		}
	case *ast.CallExpr:
		if callee := a.w.calleeOfCall(y, a.info); callee != nil {
			return a.w.returnsFreshObject(callee)
		}
	case *ast.Ident:
		if v := a.varOf(y); v != nil {
			return st.freshP[v].fresh()
		}
	}
	return false
}

func (a *ownAnalyzer) extCallName(c *ast.CallExpr) string {
	switch f := c.Fun.(type) {
	case *ast.Ident:
		if _, ok := a.info.Uses[f].(*types.Builtin); ok {
			return f.Name
		}
	case *ast.SelectorExpr:
		if fn, ok := a.info.Uses[f.Sel].(*types.Func); ok && fn.Pkg() != nil {
			if fn.Type().(*types.Signature).Recv() == nil {
				return fn.Pkg().Path() + "." + fn.Name()
			}
		}
	}
	return ""
}

// expr returns the ownership class of a (tree-typed) expression and checks the uses inside it.
func (a *ownAnalyzer) expr(x ast.Expr, st *ownState) ocls {
	if x == nil {
		return owned
	}
	switch y := x.(type) {
	case *ast.ParenExpr:
		return a.expr(y.X, st)
	case *ast.Ident:
		v := a.varOf(y)
		if v == nil {
			return owned
		}
		if isTreeType(v.Type()) {
			for k, p := range st.moved {
				if strings.HasPrefix(k, "var:"+v.Name()+"@") && strings.HasSuffix(k, fmt.Sprintf("#%p", v)) {
					a.ob("own-moved-once", v.Name(), false, y.Pos(), fmt.Sprintf("%s is used after it was handed to a consuming call at %s (its content may have been mutated or embedded elsewhere; on a loop or closure back-edge the same value is handed over once per iteration)", v.Name(), a.pos(p)))
				}
			}
		}
		if c, ok := st.cls[v]; ok {
			return c
		}
		if !isTreeType(v.Type()) {
			return owned
		}
		if v.Parent() == v.Pkg().Scope() {
			return borrowed
		}
		return owned
	case *ast.BasicLit, *ast.FuncLit:
		return owned
	case *ast.CompositeLit:
		c := owned
		for _, el := range y.Elts {
			if kv, ok := el.(*ast.KeyValueExpr); ok {
				a.expr(kv.Key, st)
				if isTreeType(a.info.TypeOf(kv.Value)) {
					c = joinCls(c, a.expr(kv.Value, st))
				} else {
					a.expr(kv.Value, st)
				}
			} else if isTreeType(a.info.TypeOf(el)) {
				c = joinCls(c, a.expr(el, st))
			} else {
				a.expr(el, st)
			}
		}
		return c
	case *ast.UnaryExpr:
		return a.expr(y.X, st)
	case *ast.BinaryExpr:
		a.expr(y.X, st)
		a.expr(y.Y, st)
		return owned
	case *ast.IndexExpr:
		a.expr(y.Index, st)
		c := a.expr(y.X, st)
		if v := a.varOf(y.X); v != nil && st.shallow[v] {
			_ = v
		}
		return c
	case *ast.SliceExpr:
		return a.expr(y.X, st)
	case *ast.TypeAssertExpr:
		return a.expr(y.X, st)
	case *ast.StarExpr:
		a.expr(y.X, st)
		return borrowed
	case *ast.SelectorExpr:
		if sel, ok := a.info.Selections[y]; ok && sel.Kind() == types.FieldVal {
			a.expr(y.X, st)
			if !isTreeType(a.info.TypeOf(y)) {
				return owned
			}
			rt := a.info.TypeOf(y.X)
			if bv := a.varOf(y.X); bv != nil {
				if st.freshP[bv].fresh() {
					return owned
				}
				key := fieldKey(rt, y.Sel.Name) + "[" + bv.Name() + "]"
				if p, moved := st.moved["field:"+key]; moved {
					a.ob("own-moved-once", key, false, y.Pos(), fmt.Sprintf("%s is used after it was handed to a consuming call at %s (the same tree is then shared by several owners)", key, a.pos(p)))
				}
				if a.cFields[key] {
					return owned
				}
			}
			return borrowed
		}
		return owned
	case *ast.CallExpr:
		cs, _, _ := a.call(y, st, 1)
		if len(cs) > 0 {
			return cs[0]
		}
		return owned
	case *ast.KeyValueExpr:
		a.expr(y.Key, st)
		return a.expr(y.Value, st)
	}
	return owned
}

func (a *ownAnalyzer) exprMulti(x ast.Expr, st *ownState, n int) ([]ocls, []bool, []bool) {
	switch y := x.(type) {
	case *ast.CallExpr:
		return a.call(y, st, n)
	case *ast.IndexExpr:
		c := a.expr(y, st)
		return []ocls{c, owned}, []bool{false, false}, []bool{false, false}
	case *ast.TypeAssertExpr:
		c := a.expr(y.X, st)
		sh := false
		if v := a.varOf(y.X); v != nil && st.shallow[v] {
			sh = true
		}
		return []ocls{c, owned}, []bool{sh, false}, []bool{false, false}
	}
	c := a.expr(x, st)
	out := make([]ocls, n)
	for i := range out {
		out[i] = c
	}
	return out, make([]bool, n), make([]bool, n)
}

// consume marks the argument of a consuming parameter as handed over and checks it may be.
func (a *ownAnalyzer) consume(arg ast.Expr, st *ownState, callee string, c ocls, call *ast.CallExpr) {
	site := callee + " <- " + exprString(arg)
	if fsel, ok := arg.(*ast.SelectorExpr); ok && a.mods != nil {
		if sel, ok := a.info.Selections[fsel]; ok && sel.Kind() == types.FieldVal {
			fk := fieldKey(a.info.TypeOf(fsel.X), fsel.Sel.Name)
			bn := ""
			if bv := a.varOf(fsel.X); bv != nil {
				bn = bv.Name()
			}
			if a.mods[fk] && (a.modBase[fk] == "" || a.modBase[fk] == bn) {
				// in-place update of a field this function is allowed to modify (x.f = g(x.f))
				c = owned
				a.fieldWrite(fsel, st)
			}
		}
	}
	a.ob("own-not-borrowed", site, !c.isBorrowed(), arg.Pos(),
		exprString(arg)+" may be reachable by the caller or from stored documents, but "+callee+" may mutate or embed it (pass a deepClone, or declare the source consumed)")
	switch y := arg.(type) {
	case *ast.Ident:
		if v := a.varOf(y); v != nil && isTreeType(v.Type()) {
			st.moved[fmt.Sprintf("var:%s@%d#%p", v.Name(), call.Pos(), v)] = call.Pos()
		}
	case *ast.SelectorExpr:
		if sel, ok := a.info.Selections[y]; ok && sel.Kind() == types.FieldVal {
			if bv := a.varOf(y.X); bv != nil {
				key := fieldKey(a.info.TypeOf(y.X), y.Sel.Name) + "[" + bv.Name() + "]"
				if a.cFields[key] {
					st.moved["field:"+key] = call.Pos()
				}
			}
		}
	}
}

// call analyses a call: argument uses, consuming positions, heap writes of the callee, and the class of its results.
func (a *ownAnalyzer) call(y *ast.CallExpr, st *ownState, n int) ([]ocls, []bool, []bool) {
	mk := func(c ocls, sh, fp bool) ([]ocls, []bool, []bool) {
		cs, shs, fps := make([]ocls, n), make([]bool, n), make([]bool, n)
		for i := range cs {
			cs[i], shs[i], fps[i] = c, sh, fp
		}
		return cs, shs, fps
	}
	if tv, ok := a.info.Types[y.Fun]; ok && tv.IsType() {
		return mk(a.expr(y.Args[0], st), false, false)
	}
	// call of a function-typed variable bound to a literal (inside an inlined iteration helper)
	if id, ok := y.Fun.(*ast.Ident); ok {
		if b, ok := a.info.Uses[id].(*types.Builtin); ok {
			switch b.Name() {
			case "append":
				c := owned
				for _, ar := range y.Args {
					if isTreeType(a.info.TypeOf(ar)) || isTreeList(a.info.TypeOf(ar)) {
						c = joinCls(c, a.expr(ar, st))
					} else {
						a.expr(ar, st)
					}
				}
				return mk(c, true, false)
			case "delete":
				bc := a.expr(y.Args[0], st)
				a.expr(y.Args[1], st)
				bv := a.varOf(y.Args[0])
				if isTreeMap(a.info.TypeOf(y.Args[0])) {
					okW := !bc.isBorrowed() || (bv != nil && st.writable(bv))
					a.ob("own-write-site", "delete("+exprString(y.Args[0])+", …)", okW, y.Pos(),
						"in-place delete from "+exprString(y.Args[0])+", which may be reachable by the caller or from stored documents")
				}
				return mk(owned, false, false)
			default:
				for _, ar := range y.Args {
					a.expr(ar, st)
				}
				return mk(owned, true, false)
			}
		}
	}
	callee := a.w.calleeOfCall(y, a.info)
	if callee == nil {
		// external: arguments are read; results are fresh (decoders, clones) except the shallow clones
		c := owned
		name := a.extCallName(y)
		for _, ar := range y.Args {
			if lit, ok := ar.(*ast.FuncLit); ok {
				a.literalBody(lit, st, owned)
				continue
			}
			ac := a.expr(ar, st)
			switch name {
			case "maps.Clone", "slices.Clone", "golang.org/x/exp/slices.Clone", "golang.org/x/exp/maps.Clone":
				c = joinCls(c, ac)
			}
		}
		if sel, ok := y.Fun.(*ast.SelectorExpr); ok {
			a.expr(sel.X, st)
		}
		return mk(c, true, false)
	}
	sig := callee.Obj.Type().(*types.Signature)
	cc := callee.Contract
	if sel, ok := y.Fun.(*ast.SelectorExpr); ok && sig.Recv() != nil {
		a.expr(sel.X, st)
	}
	// iteration helpers taking a literal: the literal's body runs once per element
	if inlinable(callee) {
		res := owned
		collCls := owned
		for i, ar := range y.Args {
			if lit, ok := ar.(*ast.FuncLit); ok {
				res = joinCls(res, a.literalBody(lit, st, collCls))
				continue
			}
			c := a.expr(ar, st)
			if i == 0 {
				collCls = c
			}
		}
		return mk(res, true, false)
	}
	var argCls []ocls
	for i, ar := range y.Args {
		c := a.expr(ar, st)
		argCls = append(argCls, c)
		if i >= sig.Params().Len() {
			continue
		}
		p := sig.Params().At(i)
		if !isTreeType(p.Type()) {
			continue
		}
		mode := paramMode(cc, p.Name())
		if mode == "" && cc == nil && a.w.mutParams[callee][i] {
			mode = "consumes" // uncontracted callee that writes the parameter in place
		}
		switch mode {
		case "consumes":
			a.consume(ar, st, callee.Name, c, y)
		case "inplace":
			// evaluated in place: allowed on borrowed data by design (process1); counts as a heap modification
			if fsel, ok := ar.(*ast.SelectorExpr); ok {
				a.fieldWrite(fsel, st)
			} else {
				if c.heap {
					// a tree reached from the heap (a stored document) is rewritten in place
					a.recordWrite("Document.Data", -2, a.pos(ar.Pos())+" (in-place evaluation of data reachable from stored documents)")
				}
				// a looked-up (borrowed) value that is not a field of an object the function holds: evaluating it in place
				// rewrites the tree it was looked up in (the referenced subtree of a $merge / $replace)
				a.ob("own-not-borrowed", callee.Name+" <- "+exprString(ar), !c.isBorrowed(), ar.Pos(),
					exprString(ar)+" may be reachable by the caller or from stored documents, but "+callee.Name+" evaluates it in place (pass a deepClone)")
			}
		case "mutates":
			bv := a.varOf(ar)
			okW := !c.isBorrowed() || (bv != nil && st.writable(bv))
			a.ob("own-write-site", callee.Name+" mutates "+exprString(ar), okW, ar.Pos(), exprString(ar)+" is filled in place by "+callee.Name+" but may be reachable by the caller")
		}
	}
	// heap writes of the callee count for this function's frame, unless they hit an object allocated here
	for k, base := range a.w.ownWrites(callee) {
		for b := range base {
			var argx ast.Expr
			switch {
			case b == -1:
				if sel, ok := y.Fun.(*ast.SelectorExpr); ok {
					argx = sel.X
				}
			case b >= 0 && b < len(y.Args):
				argx = y.Args[b]
			}
			src := pOther
			if argx != nil {
				src = a.ptrSrc(argx, st)
			}
			a.recordWriteTo(k, src, a.pos(y.Pos())+" (via "+callee.Name+")")
		}
	}
	// consumed fields declared by the callee: (consumes Document.Data[patch]) -> the caller's argument for `patch`
	if cc != nil {
		for _, cf := range cc.Consumes {
			i := strings.Index(cf, "[")
			if i < 0 || !strings.HasSuffix(cf, "]") {
				continue
			}
			fkey, pname := cf[:i], cf[i+1:len(cf)-1]
			for pi := 0; pi < sig.Params().Len(); pi++ {
				if sig.Params().At(pi).Name() == pname && pi < len(y.Args) {
					if bv := a.varOf(y.Args[pi]); bv != nil {
						key := fkey + "[" + bv.Name() + "]"
						fresh := st.freshP[bv].fresh()
						if p, moved := st.moved["field:"+key]; moved {
							a.ob("own-moved-once", callee.Name+" <- "+key, false, y.Pos(), fmt.Sprintf("%s is handed to %s although it was already handed over at %s: the same tree then has several owners (one per loop iteration / target)", key, callee.Name, a.pos(p)))
						} else {
							a.ob("own-moved-once", callee.Name+" <- "+key, true, y.Pos(), "")
						}
						if !fresh && !a.cFields[key] {
							a.ob("own-not-borrowed", callee.Name+" <- "+key, false, y.Pos(), key+" is consumed by "+callee.Name+" but this function does not own it (declare `consumes "+key+"`, or pass a copy)")
						}
						st.moved["field:"+key] = y.Pos()
					}
				}
			}
		}
	}
	fp := false
	if cc != nil && cc.Fresh {
		return mk(owned, true, fp)
	}
	if cc != nil && cc.Borrowed {
		return mk(borrowed, false, false)
	}
	// result class from the callee's summary: the sources its returned trees derive from, mapped to this call's arguments
	sum := a.w.retSummary(callee)
	res := ocls{heap: sum.heap}
	for i := 0; i < len(argCls) && i < 64; i++ {
		if (sum.bparams|sum.dparams)&(1<<uint(i)) != 0 {
			res = joinCls(res, argCls[i])
		}
	}
	return mk(res, !res.isBorrowed(), fp)
}

func (a *ownAnalyzer) paramIndexOf(v *types.Var) int {
	sig := a.fi.Obj.Type().(*types.Signature)
	if sig.Recv() == v {
		return -1
	}
	for i := 0; i < sig.Params().Len(); i++ {
		if sig.Params().At(i) == v {
			return i
		}
	}
	return -2
}

func (a *ownAnalyzer) recordWrite(key string, base int, pos string) {
	if a.writeBases[key] == nil {
		a.writeBases[key] = map[int]bool{}
	}
	a.writeBases[key][base] = true
	if _, ok := a.writes[key]; !ok {
		a.writes[key] = pos
	}
}

// callQuiet classifies a call's results without recording obligations.
func (a *ownAnalyzer) callQuiet(y *ast.CallExpr, st *ownState) ([]ocls, []bool, []bool) {
	saveObs, saveOrder, saveW, saveWB := a.obs, a.order, a.writes, a.writeBases
	a.obs, a.order, a.writes, a.writeBases = map[string]*OwnOb{}, nil, map[string]string{}, map[string]map[int]bool{}
	n := 1
	if t, ok := a.info.TypeOf(y).(*types.Tuple); ok {
		n = t.Len()
	}
	cs, sh, fp := a.call(y, st.clone(), n)
	// only tree-typed results matter
	var out []ocls
	if t, ok := a.info.TypeOf(y).(*types.Tuple); ok {
		for i := 0; i < t.Len() && i < len(cs); i++ {
			if isTreeType(t.At(i).Type()) {
				out = append(out, cs[i])
			}
		}
	} else if isTreeType(a.info.TypeOf(y)) {
		out = cs
	}
	a.obs, a.order, a.writes, a.writeBases = saveObs, saveOrder, saveW, saveWB
	return out, sh, fp
}

// literalBody analyses a function literal handed to an iteration helper: its body runs once per element, so it is
// analysed twice (a value defined outside and consumed inside is consumed once per element).
func (a *ownAnalyzer) literalBody(lit *ast.FuncLit, st *ownState, elem ocls) ocls {
	res := owned
	for i := 0; i < 2; i++ {
		b := st.clone()
		for _, f := range lit.Type.Params.List {
			for _, nm := range f.Names {
				if pv, ok := a.info.Defs[nm].(*types.Var); ok {
					if isTreeType(pv.Type()) {
						b.cls[pv] = elem
					}
					for k := range b.moved {
						if strings.HasPrefix(k, "var:"+pv.Name()+"@") && strings.HasSuffix(k, fmt.Sprintf("#%p", pv)) {
							delete(b.moved, k)
						}
					}
				}
			}
		}
		saveR, saveC := a.retAcc, a.contAcc
		a.retAcc, a.contAcc = newOwnState(), nil
		a.block(lit.Body.List, b)
		b.join(a.retAcc)
		a.retAcc, a.contAcc = saveR, saveC
		ast.Inspect(lit.Body, func(n ast.Node) bool {
			if _, ok := n.(*ast.FuncLit); ok && n != lit {
				return false
			}
			if r, ok := n.(*ast.ReturnStmt); ok {
				for _, rx := range r.Results {
					if isTreeType(a.info.TypeOf(rx)) {
						res = joinCls(res, a.exprQuiet(rx, b))
					}
				}
			}
			return true
		})
		st.join(b)
	}
	return res
}

// exprQuiet classifies without recording obligations (used to classify return expressions a second time).
func (a *ownAnalyzer) exprQuiet(x ast.Expr, st *ownState) ocls {
	saveObs, saveOrder := a.obs, a.order
	a.obs, a.order = map[string]*OwnOb{}, nil
	c := a.expr(x, st.clone())
	a.obs, a.order = saveObs, saveOrder
	return c
}

// ownPass runs the ownership/frame analysis on the functions of the property's cone.
func ownPass(w *World, id string) []*OwnOb {
	var out []*OwnOb
	var fis []*FuncInfo
	out = append(out, effectsPass(w, id)...)
	if id == "C08" {
		// the sweep: a slice parameter rewritten in place or kept (shared backing array) corrupts the caller's list - later
		// elements become nil or stale, which ends in a nil dereference or a wrong result far from the cause
		var all []*FuncInfo
		for _, fi := range w.Funcs {
			all = append(all, fi)
		}
		sort.Slice(all, func(i, j int) bool { return all[i].Key < all[j].Key })
		for _, fi := range all {
			out = append(out, sliceAliasObs(w, fi)...)
			out = append(out, resliceObs(w, fi)...)
			out = append(out, nilListObs(w, fi)...)
			out = append(out, closureWriteObs(w, fi)...)
		}
		return out
	}
	fis = cone(w, id)
	for _, fi := range fis {
		out = append(out, ownFunc(w, fi)...)
	}
	// the obligations of a shared helper are produced once per function that runs it: keep one of each
	seenKey := map[string]bool{}
	uniq := out[:0:0]
	for _, o := range out {
		if o.OK || !seenKey[o.Key] {
			uniq = append(uniq, o)
		}
		if !o.OK {
			seenKey[o.Key] = true
		}
	}
	return uniq
}
