package main

import (
	"go/ast"
	"go/types"
	"encoding/json"
	"flag"
	"fmt"
	"os"
	"os/exec"
	"path/filepath"
	"runtime"
	"sort"
	"strconv"
	"strings"
	"time"
)

type Finding struct {
	Kind       string `json:"kind"` // finding | fixed
	Property   string `json:"property"`
	Obligation string `json:"obligation"`
	Class      string `json:"class,omitempty"`
	Witness    any    `json:"witness,omitempty"`
	What       string `json:"what"`
	Commit     string `json:"commit,omitempty"`
	ID         string   `json:"id,omitempty"`
	Replay     *Witness `json:"replay,omitempty"`
}

func loadFindings() []Finding {
	var out []Finding
	b, err := os.ReadFile(filepath.Join(verifDir, "known-findings.jsonl"))
	if err != nil {
		return nil
	}
	for _, l := range strings.Split(string(b), "\n") {
		l = strings.TrimSpace(l)
		if l == "" || strings.HasPrefix(l, "#") {
			continue
		}
		var f Finding
		if json.Unmarshal([]byte(l), &f) == nil {
			out = append(out, f)
		}
	}
	return out
}

type Ledger struct {
	Property string             `json:"property"`
	Keys     map[string]LedgerE `json:"obligations"`
}
type LedgerE struct {
	Kind    string   `json:"kind"`
	Tags    []string `json:"tags,omitempty"`
	Paths   int      `json:"paths"`
	MaxSecs float64  `json:"max_seconds"`
	Backend string   `json:"backend"`
}

type AssumedOb struct {
	Obligation string `json:"obligation"`
	Reason     string `json:"reason"`
}

// loadAssumed reads the obligations that are accepted as assumptions (never counted as discharged), with their reasons.
func loadAssumed() map[string]string {
	out := map[string]string{}
	b, err := os.ReadFile(filepath.Join(verifDir, "assumed-obligations.jsonl"))
	if err != nil {
		return out
	}
	for _, l := range strings.Split(string(b), "\n") {
		l = strings.TrimSpace(l)
		if l == "" || strings.HasPrefix(l, "#") {
			continue
		}
		var a AssumedOb
		if json.Unmarshal([]byte(l), &a) == nil {
			out[a.Obligation] = a.Reason
		}
	}
	return out
}

func loadLedger(id string) *Ledger {
	b, err := os.ReadFile(filepath.Join(verifDir, "ledger", id+".json"))
	if err != nil {
		return nil
	}
	var l Ledger
	if json.Unmarshal(b, &l) != nil {
		return nil
	}
	return &l
}

// cone returns the functions whose contracts carry the property tag, and everything under contract they call.
func cone(w *World, id string) []*FuncInfo {
	seen := map[*FuncInfo]bool{}
	var out []*FuncInfo
	// add(fi, full): full = reached as a root that carries the property with callee expansion, or through a call edge
	// from an expanded function; !full = a root that carries the property as `shallow` only (its callees stay out)
	expanded := map[*FuncInfo]bool{}
	var add func(fi *FuncInfo, full bool)
	add = func(fi *FuncInfo, full bool) {
		if !seen[fi] {
			seen[fi] = true
			if fi.Contract != nil && !fi.Contract.Trusted && !inlinable(fi) {
				out = append(out, fi)
			}
		}
		if !full || expanded[fi] {
			return
		}
		expanded[fi] = true
		if fi.Contract == nil && !inlinable(fi) {
			return // uncontracted callees are havoc at the call site; their bodies are not part of this proof
		}
		for _, c := range w.callees[fi] {
			// cmd/bkl's main is in the cones of C03/C05/C18 for what main itself does (dispatch, order, output); the library
			// functions it calls belong to the properties their own contracts name. The other tools (bkld, bkli, bklr, the
			// wrapper) ARE their properties: what they print rests on loading, layering and evaluating their inputs, so the
			// library functions they reach are part of their cones.
			if fi.PkgDir != c.PkgDir && fi.PkgDir == "cmd/bkl" {
				continue
			}
			add(c, true)
		}
	}
	for _, fi := range w.Funcs {
		if fi.Contract == nil {
			continue
		}
		tagged := contains(fi.Contract.Props, id)
		for _, cl := range fi.Contract.Ensures {
			for _, t := range cl.Tags {
				if t == id {
					tagged = true
				}
			}
		}
		if !tagged && id == "C09" && !fi.Contract.Trusted && rangesOverBuiltinMap(fi) {
			// determinism: a range over a built-in map is accepted as order-independent because the function's functional
			// postcondition is proved for every iteration order - so that proof is part of this property
			tagged = true
		}
		if !tagged {
			// a site assertion, a loop invariant or a transition tagged with the property: the function's own obligations
			// belong to the property (its callees only if they carry the property themselves)
			for _, ls := range fi.Contract.Loops {
				for _, cl := range append(append([]*Clause{}, ls.Invariants...), ls.Transitions...) {
					if contains(cl.Tags, id) {
						add(fi, false)
					}
				}
			}
		}
		if tagged {
			shallow := contains(fi.Contract.ShallowProps, id) && !fullTag(fi, id)
			if id == "C09" && !contains(fi.Contract.Props, id) {
				shallow = false
			}
			add(fi, !shallow)
		}
	}
	sort.Slice(out, func(i, j int) bool { return out[i].Key < out[j].Key })
	return out
}

// obFunc: the function part of an obligation key ("<pkg>:<func>" before ".<kind>[...]" / ".call[" / ".loop[" ...).
func obFunc(k string) string {
	best := len(k)
	for _, m := range []string{".nopanic[", ".call[", ".loop[", ".own-", ".post[", ".pre[", ".assert[", ".effects[", ".frame[", ".reach[", ".propagates[", ".decreases", ".reachpath["} {
		if i := strings.Index(k, m); i >= 0 && i < best {
			best = i
		}
	}
	return k[:best]
}

// fullTag: the function carries the property through an ensures tag (not only through a shallow property line).
func fullTag(fi *FuncInfo, id string) bool {
	for _, cl := range fi.Contract.Ensures {
		for _, t := range cl.Tags {
			if t == id {
				return true
			}
		}
	}
	return contains(fi.Contract.FullProps, id)
}

// rangesOverBuiltinMap: the function iterates over a map in some way - a range over a built-in map, sortedMap(m), or
// maps.Keys / maps.Values / maps.All: the order of what it produces is a question of determinism.
func rangesOverBuiltinMap(fi *FuncInfo) bool {
	found := false
	ast.Inspect(fi.Decl.Body, func(n ast.Node) bool {
		switch y := n.(type) {
		case *ast.RangeStmt:
			if t := fi.Pkg.TypesInfo.TypeOf(y.X); t != nil {
				if _, isMap := t.Underlying().(*types.Map); isMap {
					found = true
				}
			}
		case *ast.CallExpr:
			switch exprString(y.Fun) {
			case "sortedMap", "maps.Keys", "maps.Values", "maps.All":
				found = true
			}
		}
		return true
	})
	return found
}

type keyAgg struct {
	Key     string
	Kind    string
	Tags    []string
	Results []*ObResult
	Backend string
}

func (k *keyAgg) ok() bool {
	for _, r := range k.Results {
		if !r.Discharged() {
			return false
		}
	}
	return true
}

func (k *keyAgg) maxSecs() float64 {
	m := 0.0
	for _, r := range k.Results {
		if r.Seconds > m {
			m = r.Seconds
		}
	}
	return m
}

func cmdCheck(args []string) int {
	fs := flag.NewFlagSet("check", flag.ExitOnError)
	update := fs.Bool("update-ledger", false, "record the obligations discharged now as the ledger of this property")
	fs.Parse(args)
	if fs.NArg() < 1 {
		fmt.Fprintln(os.Stderr, "usage: bklverif check [--update-ledger] <property> [quick|thorough]")
		return 2
	}
	id := fs.Arg(0)
	tier := "quick"
	if fs.NArg() > 1 {
		tier = fs.Arg(1)
	}
	if v := os.Getenv("VERIF_TIER"); v != "" && fs.NArg() < 2 {
		tier = v
	}
	seed := 0
	if v := os.Getenv("VERIF_SEED"); v != "" {
		seed, _ = strconv.Atoi(v)
	}
	start := time.Now()
	w, lib := setup()
	p := &Prover{Lib: lib, WorkDir: filepath.Join(verifDir, "work"), Par: (runtime.NumCPU() + 1) / 2, Timeout: 20 * time.Second}
	if tier == "thorough" {
		p.Timeout = 60 * time.Second
		p.TwoAgree = true
	}
	if l := loadLedger(id); l != nil && !*update {
		p.Claimed = map[string]bool{}
		for k := range l.Keys {
			p.Claimed[k] = true
		}
	}
	p.Short = map[string]bool{}
	for k := range loadAssumed() {
		p.Short[k] = true
	}
	for _, f := range loadFindings() {
		if f.Kind == "finding" && f.Obligation != "" {
			p.Short[f.Obligation] = true
		}
	}
	run := runProperty(w, lib, p, id, tier)
	if tier == "thorough" && repoDir == "/repo" && !*update {
		run.selftest = runSelftest(id)
	}
	return run.report(id, tier, seed, start, *update)
}

type propRun struct {
	w           *World
	funcs       []*FuncResult
	aggs        []*keyAgg
	ownObs      []*OwnOb
	unsupported []string
	assumed     map[string]bool
	axioms      map[string]bool
	lemmasUsed  map[string]bool
	solverSecs  float64
	bounded     []map[string]any
	extraViol   []violation
	notes       []string
	assumedSites []string
	assumedPaths int // undischarged paths of obligations accepted as assumptions (not part of the claim)
	witnesses    []map[string]any
	selftest     map[string]any
	unclaimed    int
	lapsed       map[string]string // untagged loop invariants left out of this run (proof hints that no longer apply)
}

type violation struct {
	Key    string
	Detail map[string]any
	Input  bool // a concrete failing input was found
}

func runProperty(w *World, lib *SpecLib, p *Prover, id, tier string) *propRun {
	run := &propRun{w: w, assumed: map[string]bool{}, axioms: map[string]bool{}, lemmasUsed: map[string]bool{}, lapsed: map[string]string{}}
	fis := cone(w, id)
	sweep := id == "C08"
	if sweep {
		fis = nil
		for _, fi := range w.Funcs {
			fis = append(fis, fi)
		}
		sort.Slice(fis, func(i, j int) bool { return fis[i].Key < fis[j].Key })
	}
	var obs []*Ob
	globals := map[string][]string{}
	for _, fi := range fis {
		if sweep && w.inlinedEverywhere(fi) {
			continue // a helper without a contract that is executed through its body at every call site: checked there
		}
		r := verifyFunc(w, fi, sweep)
		run.funcs = append(run.funcs, r)
		if r.Unsupported != "" {
			run.unsupported = append(run.unsupported, fi.Key+": "+r.Unsupported)
			continue
		}
		for _, ob := range r.Obs {
			if sweep && ob.Kind != "nopanic" && ob.Kind != "term" && ob.Kind != "prop" && !contains(ob.Tags, "C08") {
				continue
			}
			obs = append(obs, ob)
		}
		globals[fi.Key] = r.Globals
		for _, a := range r.Assumed {
			run.assumed[a] = true
		}
		if fi.Contract != nil {
			for _, l := range fi.Contract.Lemmas {
				run.lemmasUsed[l] = true
			}
		}
	}
	// lemmas used by the cone (and the lemmas those use) are proved here too
	for changed := true; changed; {
		changed = false
		for ln := range run.lemmasUsed {
			if l, ok := lib.Lemmas[ln]; ok {
				for _, u := range l.Uses {
					if !run.lemmasUsed[u] {
						run.lemmasUsed[u] = true
						changed = true
					}
				}
			}
		}
	}
	for _, ln := range lib.LemmaOrder {
		if run.lemmasUsed[ln] {
			obs = append(obs, lib.lemmaObs(lib.Lemmas[ln])...)
		}
	}
	ros, rnotes := regexObs(w, id)
	obs = append(obs, ros...)
	for _, n := range rnotes {
		run.assumed[n] = true
	}
	rs := p.dischargeAll(obs, globals)
	rs = run.lapseInvariants(w, p, id, sweep, fis, rs, globals)
	byKey := map[string]*keyAgg{}
	for _, r := range rs {
		a := byKey[r.Ob.Key]
		if a == nil {
			a = &keyAgg{Key: r.Ob.Key, Kind: r.Ob.Kind, Tags: r.Ob.Tags, Backend: "smt"}
			byKey[r.Ob.Key] = a
			run.aggs = append(run.aggs, a)
		}
		a.Results = append(a.Results, r)
		run.solverSecs += r.Seconds
		for _, ax := range r.Axioms {
			run.axioms[ax] = true
		}
	}
	run.ownObs = ownPass(w, id)
	if id == "C09" {
		// a map range that is accepted as order-independent "because of the function's functional postcondition" is only
		// as good as that postcondition's proof in THIS run: if any obligation of the function is undischarged, the range
		// is order-dependent as far as this check knows (this also covers functions that are new to the cone)
		failing := map[string]string{}
		for _, a := range run.aggs {
			if !a.ok() && len(a.Results) > 0 {
				failing[a.Results[0].Ob.Func] = a.Key
			}
		}
		for _, u := range run.unsupported {
			// a function the executor cannot run has no proof at all
			failing[strings.SplitN(u, ": ", 2)[0]] = "the function is outside the supported subset (" + u + ")"
		}
		for _, o := range run.ownObs {
			if o.OK && strings.Contains(o.Key, ".effects[map range #") && strings.HasPrefix(o.Why, "covered by the function") {
				fn := o.Key[:strings.Index(o.Key, ".effects[")]
				if k, bad := failing[fn]; bad {
					o.OK = false
					o.Why = "the range is only order-independent if the function's functional postcondition holds for every iteration order, but " + k + " is not discharged"
				}
			}
		}
	}
	return run
}

// lapseInvariants: a loop invariant without a property tag is a proof hint. When such an invariant is no longer
// provable (or no longer resolvable) after a change, its function is executed again without it - it is then neither
// assumed nor checked. If every claimed obligation of the function is discharged that way, the function's contract still
// holds and the run uses the new results (the lapsed invariants are listed in the evidence notes); otherwise the original
// results stand and are reported.
func (run *propRun) lapseInvariants(w *World, p *Prover, id string, sweep bool, fis []*FuncInfo, rs []*ObResult, globals map[string][]string) []*ObResult {
	ledger := loadLedger(id)
	assumedObs := loadAssumed()
	claimed := func(o *Ob) bool {
		if _, ok := assumedObs[o.Key]; ok {
			return false
		}
		if ledger == nil {
			return true
		}
		if _, ok := ledger.Keys[o.Key]; ok {
			return true
		}
		return o.Kind == "nopanic" || o.Kind == "term"
	}
	byFunc := map[string]*FuncInfo{}
	for _, fi := range fis {
		byFunc[fi.Key] = fi
	}
	invOf := func(key string) string { // "<f>.loop[k].inv[n].step" -> "<f>.loop[k].inv[n]"
		if i := strings.LastIndex(key, "."); i > 0 && (strings.HasSuffix(key, ".init") || strings.HasSuffix(key, ".step")) {
			return key[:i]
		}
		return ""
	}
	// functions whose first pass already left unresolvable invariants out
	for _, fr := range run.funcs {
		for k, why := range fr.Lapsed {
			run.lapsed[k] = "names something that no longer exists (" + why + ")"
		}
	}
	for round := 0; round < 3; round++ {
		cand := map[string]map[string]bool{}
		for _, r := range rs {
			if r.Discharged() || !claimed(r.Ob) {
				continue
			}
			if (r.Ob.Kind == "inv-init" || r.Ob.Kind == "inv-step") && len(r.Ob.Tags) == 0 && byFunc[r.Ob.Func] != nil {
				if cand[r.Ob.Func] == nil {
					cand[r.Ob.Func] = map[string]bool{}
				}
				cand[r.Ob.Func][invOf(r.Ob.Key)] = true
			}
		}
		if len(cand) == 0 {
			break
		}
		changed := false
		for fn, invs := range cand {
			for k := range invs {
				dropInvs[k] = true
			}
			fr := verifyFunc(w, byFunc[fn], sweep)
			ok := fr.Unsupported == ""
			var obs2 []*Ob
			for _, ob := range fr.Obs {
				if sweep && ob.Kind != "nopanic" && ob.Kind != "term" && ob.Kind != "prop" && !contains(ob.Tags, "C08") {
					continue
				}
				obs2 = append(obs2, ob)
			}
			var rs2 []*ObResult
			moreInvs := false
			if ok {
				rs2 = p.dischargeAll(obs2, globals)
				for _, r := range rs2 {
					if !r.Discharged() && claimed(r.Ob) {
						if (r.Ob.Kind == "inv-init" || r.Ob.Kind == "inv-step") && len(r.Ob.Tags) == 0 {
							moreInvs = true
						} else {
							ok = false
						}
					}
				}
			}
			if !ok {
				for k := range invs {
					delete(dropInvs, k) // the original results stand
				}
				continue
			}
			// use the new results for this function
			var kept []*ObResult
			for _, r := range rs {
				if r.Ob.Func != fn {
					kept = append(kept, r)
				}
			}
			rs = append(kept, rs2...)
			for k := range invs {
				run.lapsed[k] = "no longer provable; the function's other obligations are discharged without it"
			}
			for k, why := range fr.Lapsed {
				run.lapsed[k] = "names something that no longer exists (" + why + ")"
			}
			for i, f0 := range run.funcs {
				if f0.Func.Key == fn {
					run.funcs[i] = fr
				}
			}
			if moreInvs {
				changed = true
			}
		}
		if !changed {
			break
		}
	}
	return rs
}

func (run *propRun) report(id, tier string, seed int, start time.Time, update bool) int {
	findings := loadFindings()
	ledger := loadLedger(id)
	total, discharged := 0, 0
	byBackend := map[string]int{}
	var viols []violation
	known := map[string]bool{}
	replayDir := filepath.Join(verifDir, "replays")
	if repoDir != "/repo" {
		replayDir = filepath.Join(verifDir, "work", "replays-scratch")
	}
	os.MkdirAll(replayDir, 0o755)
	isKnown := func(key string) *Finding {
		for i := range findings {
			f := &findings[i]
			if f.Kind == "finding" && f.Obligation == key {
				return f
			}
		}
		return nil
	}
	assumedObs := loadAssumed()
	present := map[string]bool{}
	for _, a := range run.aggs {
		present[a.Key] = true
		n := len(a.Results)
		total += n
		okN := 0
		for _, r := range a.Results {
			if r.Discharged() {
				okN++
				byBackend[r.Solver]++
			}
		}
		discharged += okN
		if okN == n {
			continue
		}
		if f := isKnown(a.Key); f != nil {
			known[f.Obligation+" — "+f.What] = true
			continue
		}
		if why, ok := assumedObs[a.Key]; ok {
			run.assumedSites = append(run.assumedSites, a.Key+": "+why)
			run.assumedPaths += n - okN
			continue
		}
		inLedger := ledger == nil || func() bool { _, ok := ledger.Keys[a.Key]; return ok }()
		if !inLedger && a.Kind != "nopanic" && a.Kind != "term" {
			run.notes = append(run.notes, "undischarged obligation outside the ledger (not claimed): "+a.Key)
			run.unclaimed += n - okN
			continue
		}
		var fails []map[string]any
		input := false
		var replayed map[string]any
		for _, r := range a.Results {
			if !r.Discharged() {
				fails = append(fails, map[string]any{"path": r.Ob.Path, "status": r.Status, "solver": r.Solver, "answers": r.Answers,
					"smt_file": r.File, "position": r.Ob.Pos, "clause": r.Ob.Clause, "solver_output": r.Output})
				if r.Ob.Witness != nil && r.Status == "sat" && replayed == nil {
					if rep := replayRegexWitness(run.w, r.Ob.Witness, r.Output); rep != nil {
						replayed = rep
						if rep["reproduced"] == true {
							input = true
						}
					}
				}
			}
		}
		det := map[string]any{"obligation": a.Key, "kind": a.Kind, "tags": a.Tags, "failing_paths": fails}
		if replayed != nil {
			det["replay_on_real_code"] = replayed
		}
		viols = append(viols, violation{Key: a.Key, Input: input, Detail: det})
	}
	for _, o := range run.ownObs {
		total++
		if o.OK {
			discharged++
			byBackend["own"]++
			present[o.Key] = true
			continue
		}
		present[o.Key] = true
		if f := isKnown(o.Key); f != nil {
			known[f.Obligation+" — "+f.What] = true
			continue
		}
		if why, ok := assumedObs[o.Key]; ok {
			run.assumedSites = append(run.assumedSites, o.Key+": "+why)
			run.assumedPaths++
			continue
		}
		viols = append(viols, violation{Key: o.Key, Detail: map[string]any{"obligation": o.Key, "kind": o.Kind, "position": o.Pos, "reason": o.Why}})
	}
	// findings that are identified by a concrete input for the real tools: replayed on every run
	{
		scratch, _ := os.MkdirTemp("", "bklverif-witness-")
		defer os.RemoveAll(scratch)
		n := 0
		for i := range findings {
			f := &findings[i]
			if f.Property != id || f.Replay == nil {
				continue
			}
			n++
			r := runWitness(scratch, f.Replay, n)
			switch {
			case f.Kind == "finding" && r.Ran && r.Violates:
				known[f.ID+" "+f.What+" (witness replayed on the real "+f.Replay.Cmd[0]+": still reproduces)"] = true
				run.witnesses = append(run.witnesses, map[string]any{"finding": f.ID, "reproduces": true, "stdout": r.Stdout, "stderr": r.Stderr, "exit": r.Exit})
			case f.Kind == "finding" && r.Ran:
				run.notes = append(run.notes, "finding "+f.ID+" no longer reproduces on the real tool (its witness now behaves as the property demands)")
				run.witnesses = append(run.witnesses, map[string]any{"finding": f.ID, "reproduces": false, "stdout": r.Stdout, "exit": r.Exit})
			case f.Kind == "fixed" && r.Ran && r.Violates:
				viols = append(viols, violation{Key: "witness:" + f.ID, Input: true, Detail: map[string]any{"obligation": "witness of repaired defect " + f.ID + " (" + f.What + ")",
					"input": f.Replay, "observed_stdout": r.Stdout, "observed_stderr": r.Stderr, "observed_exit": r.Exit, "note": r.Note}})
			case f.Kind == "fixed" && r.Ran:
				run.witnesses = append(run.witnesses, map[string]any{"fixed": f.ID, "reproduces": false})
			default:
				run.notes = append(run.notes, "witness of "+f.ID+" could not be run: "+r.Note)
			}
		}
	}
	// ledger obligations that are no longer generated
	if ledger != nil && !update {
		var missing []string
		for k := range ledger.Keys {
			if !present[k] {
				missing = append(missing, k)
			}
		}
		sort.Strings(missing)
		// functions that are still executed in this run (some obligation of theirs is present)
		liveFunc := map[string]bool{}
		for k := range present {
			liveFunc[obFunc(k)] = true
		}
		for _, k := range missing {
			if f := isKnown(k); f != nil {
				continue
			}
			// a run-time check site, a recursive call site or a write site that no longer exists in a function that is still
			// executed is not a loss: these obligations are keyed by the expression, and whatever replaced the expression
			// has obligations of its own (which are violations when they fail, ledger or not)
			kind := ledger.Keys[k].Kind
			if kind == "effects" && strings.Contains(k, ".effects[map range #") && run.w.Funcs[obFunc(k)] != nil {
				// a range over a built-in map that is gone from a function that still exists: nothing left to be order-dependent
				// (the ranges that remain are numbered afresh and have obligations of their own)
				still := false
				for pk := range present {
					if obFunc(pk) == obFunc(k) && strings.Contains(pk, ".effects[map range #") {
						still = true
					}
				}
				if !still {
					run.notes = append(run.notes, "map range no longer exists: "+k)
					continue
				}
			}
			if kind == "inv-init" || kind == "inv-step" {
				why, isLapsed := run.lapsed[k[:strings.LastIndex(k, ".")]]
				if !isLapsed && len(ledger.Keys[k].Tags) == 0 && liveFunc[obFunc(k)] {
					// the loop the invariant belonged to no longer exists (replaced by a library call, unrolled, merged):
					// an untagged invariant is a proof hint, and there is nothing left for it to hint at
					loopGone := true
					pre := k[:strings.Index(k, ".inv[")]
					for pk := range present {
						if strings.HasPrefix(pk, pre+".") {
							loopGone = false
						}
					}
					if loopGone {
						why, isLapsed = "its loop no longer exists", true
					}
				}
				if isLapsed {
					// only quiet if the function has no failing claimed obligation (otherwise everything is reported)
					fnBad := false
					for _, v := range viols {
						if obFunc(v.Key) == obFunc(k) {
							fnBad = true
						}
					}
					if !fnBad {
						run.notes = append(run.notes, "loop invariant lapsed ("+why+"): "+k)
						continue
					}
				}
			}
			if kind == "prop" {
				// a call site that is gone: quiet as long as the function still has propagation obligations (its clause is
				// still there and produces one per remaining call site)
				still := false
				for pk := range present {
					if obFunc(pk) == obFunc(k) && strings.Contains(pk, "propagates[") {
						still = true
					}
				}
				if !still {
					kind = "prop-lost"
				}
			}
			switch kind {
			case "nopanic", "term", "own-not-borrowed", "own-moved-once", "own-write-site", "prop":
				if fn := obFunc(k); liveFunc[fn] {
					gone := true
					for _, u := range run.unsupported {
						if strings.HasPrefix(u, fn+":") {
							gone = false
						}
					}
					if gone {
						run.notes = append(run.notes, "site obligation no longer generated (the expression is gone, its function is still verified): "+k)
						continue
					}
				}
			}
			why := "the obligation is no longer generated from the working tree (function removed, renamed, or outside the supported subset)"
			for _, u := range run.unsupported {
				if strings.HasPrefix(k, strings.SplitN(u, ": ", 2)[0]+".") {
					why = "function left the supported subset: " + u
				}
			}
			viols = append(viols, violation{Key: k, Detail: map[string]any{"obligation": k, "reason": why}})
		}
	}
	viols = append(viols, run.extraViol...)

	if update {
		l := &Ledger{Property: id, Keys: map[string]LedgerE{}}
		for _, a := range run.aggs {
			if a.ok() {
				l.Keys[a.Key] = LedgerE{Kind: a.Kind, Tags: a.Tags, Paths: len(a.Results), MaxSecs: float64(int(a.maxSecs()*100)) / 100, Backend: "smt"}
			}
		}
		for _, o := range run.ownObs {
			if o.OK {
				l.Keys[o.Key] = LedgerE{Kind: o.Kind, Backend: "own", Paths: 1}
			}
		}
		if ledger != nil {
			for k := range ledger.Keys {
				if _, ok := l.Keys[k]; !ok {
					fmt.Printf("ledger: DROPPED %s (was claimed, is not discharged/generated now)\n", k)
				}
			}
		}
		b, _ := json.MarshalIndent(l, "", " ")
		os.MkdirAll(filepath.Join(verifDir, "ledger"), 0o755)
		os.WriteFile(filepath.Join(verifDir, "ledger", id+".json"), append(b, '\n'), 0o644)
		fmt.Printf("ledger/%s.json: %d obligations\n", id, len(l.Keys))
	}

	// output lines
	var knownL []string
	for k := range known {
		knownL = append(knownL, k)
	}
	sort.Strings(knownL)
	for _, k := range knownL {
		fmt.Printf("KNOWN-FINDING: property=%s %s\n", id, k)
	}
	sort.Slice(viols, func(i, j int) bool { return viols[i].Key < viols[j].Key })
	for i, v := range viols {
		path := filepath.Join(replayDir, fmt.Sprintf("%s-%s-%d.json", id, sanitizeFile(v.Key), i))
		v.Detail["property"] = id
		v.Detail["failing_input_found"] = v.Input
		b, _ := json.MarshalIndent(v.Detail, "", " ")
		os.WriteFile(path, b, 0o644)
		if v.Input {
			fmt.Printf("VIOLATION property=%s replay=%s obligation=%s\n", id, path, v.Key)
		} else {
			fmt.Printf("VIOLATION property=%s replay=%s obligation=%s no-failing-input-found\n", id, path, v.Key)
		}
	}
	run.writeEvidence(id, tier, seed, start, total, discharged, byBackend, len(viols), knownL)
	fmt.Printf("%s %s: %d obligations, %d discharged, %d violations, %d known findings, %.1fs\n", id, tier, total, discharged, len(viols), len(knownL), time.Since(start).Seconds())
	for _, u := range run.unsupported {
		fmt.Printf("note: unsupported: %s\n", u)
	}
	if len(viols) > 0 {
		return 1
	}
	if total == 0 {
		fmt.Println("no obligations were generated for this property: the check is vacuous")
		return 2
	}
	return 0
}

func (run *propRun) writeEvidence(id, tier string, seed int, start time.Time, total, discharged int, byBackend map[string]int, nviol int, known []string) {
	var fns []map[string]any
	var trusted []string
	for _, r := range run.funcs {
		m := map[string]any{"function": r.Func.Key, "file": strings.TrimPrefix(r.Func.File, run.w.RepoDir+"/"), "paths": r.Paths, "obligations": len(r.Obs)}
		if r.Unsupported != "" {
			m["unsupported"] = r.Unsupported
		}
		fns = append(fns, m)
	}
	for _, c := range run.w.Contracts {
		if c.Trusted {
			trusted = append(trusted, "assumed contract (body not verified): "+c.Pkg+":"+c.Name)
		}
	}
	var samples []any
	for i, a := range run.aggs {
		if i%(len(run.aggs)/6+1) == 0 && len(a.Results) > 0 {
			r := a.Results[0]
			samples = append(samples, map[string]any{"obligation": a.Key, "kind": a.Kind, "clause": r.Ob.Clause, "path": r.Ob.Path,
				"smt_bytes": r.Bytes, "answer": r.Status, "solver": r.Solver, "seconds": float64(int(r.Seconds*1000)) / 1000})
		}
	}
	for i, o := range run.ownObs {
		if i < 3 {
			samples = append(samples, map[string]any{"obligation": o.Key, "kind": o.Kind, "backend": "own", "ok": o.OK, "why": o.Why})
		}
	}
	var assumptions []string
	for a := range run.assumed {
		assumptions = append(assumptions, a)
	}
	sort.Strings(assumptions)
	assumptions = append(assumptions,
		"error message text is dropped: an error is NoErr or E(tag) where tag is the sentinel reached through %w",
		"integers are mathematical (Go int is 64-bit machine arithmetic)",
		"slices are value sequences ([]string distinguishes nil from empty; for other slice types a comparison with nil is an unknown boolean); capacity/backing-array identity is not modelled",
		"trees have value semantics in the functional obligations; in-place mutation is covered by the ownership/frame obligations (backend own) only where those are generated",
		"strings are sequences of code points (valid UTF-8 assumed)",
		"partial correctness: recursive calls are used through their contracts; termination obligations are reported under C08")
	var axioms []string
	for a := range run.axioms {
		axioms = append(axioms, a)
	}
	sort.Strings(axioms)
	tb := []string{"bklverif VC generator (AST symbolic executor, contract instantiation, loop schemas for range/sortedMap)",
		"SMT solvers z3 5.1.0 (z3-new), cvc5 1.0.3, z3 4.8.12", "spec library /verif/spec/*.smt2 (the oracle; written from the property statements)"}
	tb = append(tb, trusted...)
	for _, a := range axioms {
		tb = append(tb, "spec axiom: "+a)
	}
	for _, a := range run.assumedSites {
		tb = append(tb, "obligation accepted as an assumption (not discharged): "+a)
	}
	// the level is the one claimed in MANIFEST.json; obligations that were never claimed (undischarged and outside
	// the ledger) are reported separately and are not part of the claim
	level := manifestLevel(id)
	claimed := total - run.unclaimed - run.assumedPaths
	expl := fmt.Sprintf("%d of %d claimed obligations discharged deductively (SMT solvers / ownership-frame pass); %d further obligations were generated but are not claimed (listed under notes) and %d are accepted as assumptions (listed under assumed_obligations and in the trusted base); known findings and unsupported functions are listed in their own keys", discharged, claimed, run.unclaimed, run.assumedPaths)
	total = claimed
	cov := map[string]any{
		"obligations": total, "discharged": discharged,
		"checker_cmd":  "/verif/bin/check " + id + " " + tier,
		"trusted_base": tb,
		"by_backend":   byBackend, "solver_seconds": float64(int(run.solverSecs*100)) / 100,
		"functions_under_contract": fns, "samples": samples,
		"distinct_obligation_keys": len(run.aggs) + len(run.ownObs),
		"known_findings_seen":      known, "unsupported": run.unsupported, "bounded": run.bounded, "notes": append(run.notes, run.w.Notes...),
		"assumed_obligations": run.assumedSites, "witness_replays": run.witnesses, "mutation_selftest": run.selftest,
		"spec_axioms_used": len(axioms), "lemmas_proved_and_used": keysOf(run.lemmasUsed),
	}
	cov["explanation"] = expl
	cov["unclaimed_obligations"] = run.unclaimed
	ev := map[string]any{"property_id": id, "tier": tier, "seed": seed, "level": level, "coverage": cov,
		"assumptions": assumptions, "wall_s": float64(int(time.Since(start).Seconds()*10)) / 10, "violations": nviol}
	b, _ := json.MarshalIndent(ev, "", " ")
	evDir := filepath.Join(verifDir, "evidence")
	if repoDir != "/repo" {
		// runs against a scratch copy (self-test, seeded changes) must not overwrite the evidence of the real tree
		evDir = filepath.Join(verifDir, "work", "evidence-scratch")
	}
	os.MkdirAll(evDir, 0o755)
	os.WriteFile(filepath.Join(evDir, id+".json"), append(b, '\n'), 0o644)
}

func keysOf(m map[string]bool) []string {
	var out []string
	for k := range m {
		out = append(out, k)
	}
	sort.Strings(out)
	return out
}

// manifestLevel returns the level category claimed for the property in MANIFEST.json ("other" if absent).
func manifestLevel(id string) string {
	b, err := os.ReadFile(filepath.Join(verifDir, "MANIFEST.json"))
	if err != nil {
		return "other"
	}
	var m struct {
		Checks []struct {
			PropertyID   string `json:"property_id"`
			LevelClaimed struct {
				Category string `json:"category"`
			} `json:"level_claimed"`
		} `json:"checks"`
	}
	if json.Unmarshal(b, &m) != nil {
		return "other"
	}
	for _, c := range m.Checks {
		if c.PropertyID == id && c.LevelClaimed.Category != "" {
			return c.LevelClaimed.Category
		}
	}
	return "other"
}

// runSelftest (thorough tier only): applies the property's must-fail patches (selftest/mutants, including the reverse of
// every fix) and must-pass patches (selftest/harmless) to a scratch copy of /repo and runs the quick check against it.
// The outcome is reported in the evidence; it never changes the verdict about the unchanged tree.
func runSelftest(id string) map[string]any {
	cmd := exec.Command(filepath.Join(verifDir, "selftest", "run.sh"), id)
	cmd.Env = append(os.Environ(), "GOFLAGS=-mod=mod", "GOPROXY=off")
	out, _ := cmd.CombinedOutput()
	res := map[string]any{}
	var caught, missed, quiet, alarms []string
	for _, l := range strings.Split(string(out), "\n") {
		f := strings.Fields(l)
		switch {
		case strings.HasPrefix(l, "ok   caught") && len(f) >= 3:
			caught = append(caught, f[2])
		case strings.HasPrefix(l, "MISS") && len(f) >= 2:
			missed = append(missed, f[1])
		case strings.HasPrefix(l, "ok   quiet") && len(f) >= 3:
			quiet = append(quiet, f[2])
		case strings.HasPrefix(l, "FALSE-ALARM") && len(f) >= 2:
			alarms = append(alarms, f[1])
		}
	}
	res["must_fail_caught"], res["must_fail_missed"], res["must_pass_quiet"], res["must_pass_alarms"] = caught, missed, quiet, alarms
	for _, m := range missed {
		fmt.Printf("SELFTEST-MISS: property=%s %s (a change that should break the property was not reported)\n", id, m)
	}
	for _, m := range alarms {
		fmt.Printf("SELFTEST-FALSE-ALARM: property=%s %s (a behaviour-preserving edit was reported)\n", id, m)
	}
	return res
}
