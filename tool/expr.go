package main

import (
	"fmt"
	"go/ast"
	"go/constant"
	"go/token"
	"go/types"
	"strconv"
	"strings"
)

func (e *Exec) info(ctx *Ctx) *types.Info { return ctx.frame.info }

func (e *Exec) typeOf(x ast.Expr, ctx *Ctx) types.Type {
	return e.info(ctx).TypeOf(x)
}

// evalTo evaluates x and converts it to the static type `to`.
func (e *Exec) evalTo(x ast.Expr, to types.Type, st *State, ctx *Ctx) string {
	if id, ok := x.(*ast.Ident); ok && id.Name == "nil" {
		if _, isNil := e.info(ctx).Uses[id].(*types.Nil); isNil {
			if to == nil {
				return "VNil"
			}
			return zeroOf(to)
		}
	}
	t := e.eval(x, st, ctx)
	return e.conv(t, e.typeOf(x, ctx), to)
}

// eval evaluates a single-valued expression to an SMT term of sort sortOf(type).
func (e *Exec) eval(x ast.Expr, st *State, ctx *Ctx) string {
	info := e.info(ctx)
	if tv, ok := info.Types[x]; ok && tv.Value != nil {
		return e.constTerm(tv.Value, tv.Type)
	}
	switch x := x.(type) {
	case *ast.ParenExpr:
		return e.eval(x.X, st, ctx)
	case *ast.Ident:
		return e.evalIdent(x, st, ctx)
	case *ast.BasicLit:
		e.unsupported(x.Pos(), "literal %s", x.Value)
	case *ast.BinaryExpr:
		return e.evalBinary(x, st, ctx)
	case *ast.UnaryExpr:
		switch x.Op {
		case token.NOT:
			return "(not " + e.eval(x.X, st, ctx) + ")"
		case token.SUB:
			return "(- " + e.eval(x.X, st, ctx) + ")"
		case token.AND:
			if cl, ok := x.X.(*ast.CompositeLit); ok {
				return e.evalAlloc(cl, st, ctx)
			}
			// address of a local: opaque pointer
			e.note("address-of expression modelled as an opaque reference")
			return e.fresh(st, "addr", "Int")
		}
	case *ast.CallExpr:
		if v, ok := st.preval[x]; ok {
			return v
		}
		vs := e.evalCall(x, st, ctx)
		if len(vs) == 0 {
			e.unsupported(x.Pos(), "call without value used as expression")
		}
		return vs[0]
	case *ast.IndexExpr:
		v, _ := e.evalIndex(x, st, ctx, false)
		return v
	case *ast.SliceExpr:
		return e.evalSlice(x, st, ctx)
	case *ast.SelectorExpr:
		return e.evalSelector(x, st, ctx)
	case *ast.TypeAssertExpr:
		v := e.eval(x.X, st, ctx)
		t := info.TypeOf(x.Type)
		e.nopanic(st, x.Pos(), "type-assert", typeCond(v, t), fmt.Sprintf("%s.(%s)", exprString(x.X), types.TypeString(t, shortQual)))
		u := unwrapVal(v, t)
		if u == "" {
			return e.fresh(st, "assert", sortOf(t))
		}
		return u
	case *ast.CompositeLit:
		return e.evalComposite(x, st, ctx)
	case *ast.StarExpr:
		p := e.eval(x.X, st, ctx)
		t := info.TypeOf(x)
		fn := "deref_" + sanitize(sortOf(t))
		e.global(fn, fmt.Sprintf("(declare-fun %s (Int) %s)", fn, sortOf(t)))
		e.nopanic(st, x.Pos(), "nil-deref", "(not (= "+p+" 0))", "*"+exprString(x.X))
		return "(" + fn + " " + p + ")"
	case *ast.FuncLit:
		e.unsupported(x.Pos(), "function literal used as a value")
	}
	e.unsupported(x.Pos(), "expression %T", x)
	return ""
}

func shortQual(p *types.Package) string { return p.Name() }

func sanitize(s string) string {
	return strings.Map(func(r rune) rune {
		if r >= 'a' && r <= 'z' || r >= 'A' && r <= 'Z' || r >= '0' && r <= '9' {
			return r
		}
		return '_'
	}, s)
}

func exprString(x ast.Expr) string {
	return types.ExprString(x)
}

func (e *Exec) constTerm(v constant.Value, t types.Type) string {
	switch v.Kind() {
	case constant.Bool:
		if constant.BoolVal(v) {
			return "true"
		}
		return "false"
	case constant.String:
		return smtString(constant.StringVal(v))
	case constant.Int:
		s := v.ExactString()
		if strings.HasPrefix(s, "-") {
			return "(- " + s[1:] + ")"
		}
		return s
	case constant.Float:
		// opaque float identity derived from the literal
		f, _ := constant.Float64Val(v)
		e.note("float constants are opaque identities")
		return strconv.Itoa(int(f*1000003) % 1000000007)
	}
	return "0"
}

func (e *Exec) evalIdent(x *ast.Ident, st *State, ctx *Ctx) string {
	info := e.info(ctx)
	obj := info.Uses[x]
	if obj == nil {
		obj = info.Defs[x]
	}
	switch o := obj.(type) {
	case *types.Nil:
		return "VNil"
	case *types.Var:
		if t, ok := st.env[o]; ok {
			return t
		}
		return e.globalVar(o)
	case *types.Const:
		return e.constTerm(o.Val(), o.Type())
	}
	e.unsupported(x.Pos(), "identifier %s (%T)", x.Name, obj)
	return ""
}

// globalVar models a package-level variable: error sentinels are distinct tags, everything else an opaque constant.
func (e *Exec) globalVar(o *types.Var) string {
	if tag, ok := e.w.Sentinels[o]; ok {
		return fmt.Sprintf("(E %d)", tag)
	}
	if o.Pkg().Path() == "os" && o.Name() == "ErrNotExist" {
		return "osErrNotExist"
	}
	if o.Pkg().Path() == "io" && o.Name() == "EOF" {
		return "ioEOF"
	}
	name := "g_" + sanitize(o.Pkg().Name()+"_"+o.Name())
	e.global(name, fmt.Sprintf("(declare-const %s %s)", name, sortOf(o.Type())))
	if isErrorType(o.Type()) {
		e.global(name+"_ne", fmt.Sprintf("(assert ((_ is E) %s))", name))
	}
	if pat, ok := e.w.regexpPattern(o); ok {
		// var re = regexp.MustCompile("<constant>"), never assigned again: the expression's source is known
		e.global(name+"_pat", fmt.Sprintf("(assert (= (rePat %s) %s))", name, smtString(pat)))
	}
	return name
}

// regexpPattern: the constant pattern of a package-level `var x = regexp.MustCompile(<const>)` that nothing in its
// package assigns or takes the address of.
func (w *World) regexpPattern(o *types.Var) (string, bool) {
	if w.rePats == nil {
		w.rePats = map[*types.Var]string{}
		for _, p := range w.Pkgs {
			written := map[types.Object]bool{}
			for _, f := range p.Syntax {
				ast.Inspect(f, func(n ast.Node) bool {
					mark := func(x ast.Expr) {
						if id, ok := x.(*ast.Ident); ok {
							if ob := p.TypesInfo.Uses[id]; ob != nil {
								written[ob] = true
							}
						}
					}
					switch n := n.(type) {
					case *ast.AssignStmt:
						for _, l := range n.Lhs {
							mark(l)
						}
					case *ast.IncDecStmt:
						mark(n.X)
					case *ast.UnaryExpr:
						if n.Op == token.AND {
							mark(n.X)
						}
					}
					return true
				})
			}
			for _, f := range p.Syntax {
				for _, d := range f.Decls {
					gd, ok := d.(*ast.GenDecl)
					if !ok || gd.Tok != token.VAR {
						continue
					}
					for _, sp := range gd.Specs {
						vs := sp.(*ast.ValueSpec)
						if len(vs.Names) != len(vs.Values) {
							continue
						}
						for i, nm := range vs.Names {
							v, ok := p.TypesInfo.Defs[nm].(*types.Var)
							if !ok || written[v] {
								continue
							}
							call, ok := vs.Values[i].(*ast.CallExpr)
							if !ok || len(call.Args) != 1 {
								continue
							}
							sel, ok := call.Fun.(*ast.SelectorExpr)
							if !ok {
								continue
							}
							fn, ok := p.TypesInfo.Uses[sel.Sel].(*types.Func)
							if !ok || fn.Pkg() == nil || fn.Pkg().Path() != "regexp" || fn.Name() != "MustCompile" {
								continue
							}
							tv := p.TypesInfo.Types[call.Args[0]]
							if tv.Value != nil && tv.Value.Kind() == constant.String {
								w.rePats[v] = constant.StringVal(tv.Value)
							}
						}
					}
				}
			}
		}
	}
	pat, ok := w.rePats[o]
	return pat, ok
}

func (e *Exec) evalBinary(x *ast.BinaryExpr, st *State, ctx *Ctx) string {
	switch x.Op {
	case token.LAND:
		a := e.eval(x.X, st, ctx)
		st.guards = append(st.guards, a)
		b := e.eval(x.Y, st, ctx)
		st.guards = st.guards[:len(st.guards)-1]
		return "(and " + a + " " + b + ")"
	case token.LOR:
		a := e.eval(x.X, st, ctx)
		st.guards = append(st.guards, "(not "+a+")")
		b := e.eval(x.Y, st, ctx)
		st.guards = st.guards[:len(st.guards)-1]
		return "(or " + a + " " + b + ")"
	case token.EQL, token.NEQ:
		tx, ty := e.typeOf(x.X, ctx), e.typeOf(x.Y, ctx)
		var a, b string
		isNil := func(t types.Type) bool {
			bt, ok := t.(*types.Basic)
			return ok && bt.Kind() == types.UntypedNil
		}
		sliceNil := func(t types.Type, other ast.Expr) (string, bool) {
			// nil-ness of a slice is not part of the model (nil and empty are the same sequence): a comparison with nil
			// is an unknown boolean, except for values that are visibly fresh literals
			if isStringList(t) {
				v := e.eval(other, st, ctx)
				if x.Op == token.EQL {
					return "((_ is SliceNil) " + v + ")", true
				}
				return "(not ((_ is SliceNil) " + v + "))", true
			}
			if !(isTreeList(t) || isRefList(t)) {
				return "", false
			}
			e.eval(other, st, ctx)
			e.note("comparison of a slice with nil is an unknown boolean (nil and empty slices are the same sequence in the model)")
			r := e.fresh(st, "sliceIsNil", "Bool")
			if x.Op == token.EQL {
				return r, true
			}
			return "(not " + r + ")", true
		}
		if isNil(ty) {
			if r, ok := sliceNil(tx, x.X); ok {
				return r
			}
		}
		if isNil(tx) {
			if r, ok := sliceNil(ty, x.Y); ok {
				return r
			}
		}
		switch {
		case isNil(ty):
			a = e.eval(x.X, st, ctx)
			b = zeroOf(tx)
			if isTreeMap(tx) {
				b = "VNil"
			}
		case isNil(tx):
			b = e.eval(x.Y, st, ctx)
			a = zeroOf(ty)
			if isTreeMap(ty) {
				a = "VNil"
			}
		case isAny(tx) && !isAny(ty):
			a = e.eval(x.X, st, ctx)
			b = e.evalTo(x.Y, tx, st, ctx)
		case isAny(ty) && !isAny(tx):
			a = e.evalTo(x.X, ty, st, ctx)
			b = e.eval(x.Y, st, ctx)
		default:
			a = e.eval(x.X, st, ctx)
			b = e.eval(x.Y, st, ctx)
			if isAny(tx) && isAny(ty) {
				// comparing two interfaces panics when both hold the same uncomparable type
				e.nopanic(st, x.Pos(), "iface-compare",
					fmt.Sprintf("(and (not (and ((_ is VMap) %s) ((_ is VMap) %s))) (not (and ((_ is VList) %s) ((_ is VList) %s))))", a, b, a, b),
					exprString(x))
			}
		}
		if x.Op == token.EQL {
			return "(= " + a + " " + b + ")"
		}
		return "(not (= " + a + " " + b + "))"
	}
	a := e.eval(x.X, st, ctx)
	b := e.eval(x.Y, st, ctx)
	t := e.typeOf(x.X, ctx)
	isStr := sortOf(t) == "String"
	switch x.Op {
	case token.ADD:
		if isStr {
			return "(str.++ " + a + " " + b + ")"
		}
		return "(+ " + a + " " + b + ")"
	case token.SUB:
		return "(- " + a + " " + b + ")"
	case token.MUL:
		return "(* " + a + " " + b + ")"
	case token.QUO:
		e.nopanic(st, x.Pos(), "div-zero", "(not (= "+b+" 0))", exprString(x))
		return "(div " + a + " " + b + ")"
	case token.REM:
		e.nopanic(st, x.Pos(), "div-zero", "(not (= "+b+" 0))", exprString(x))
		return "(mod " + a + " " + b + ")"
	case token.LSS:
		if isStr {
			return "(str.< " + a + " " + b + ")"
		}
		return "(< " + a + " " + b + ")"
	case token.LEQ:
		if isStr {
			return "(str.<= " + a + " " + b + ")"
		}
		return "(<= " + a + " " + b + ")"
	case token.GTR:
		if isStr {
			return "(str.< " + b + " " + a + ")"
		}
		return "(> " + a + " " + b + ")"
	case token.GEQ:
		if isStr {
			return "(str.<= " + b + " " + a + ")"
		}
		return "(>= " + a + " " + b + ")"
	case token.OR, token.AND, token.XOR, token.SHL, token.SHR, token.AND_NOT:
		e.note("bitwise integer operation modelled as an uninterpreted value")
		return e.fresh(st, "bitop", "Int")
	}
	e.unsupported(x.Pos(), "binary operator %s", x.Op)
	return ""
}

// nopanic records a "this cannot panic here" side obligation (only in sweep mode).
func (e *Exec) nopanic(st *State, pos token.Pos, kind, cond, what string) {
	if kind == "nil-deref" {
		// API misuse (nil *Document, *Parser, ...) is outside the input quantifier of C08: assumed, and listed
		e.note("pointers that are dereferenced are assumed non-nil (nil receivers/arguments are API misuse, not input)")
		st.assume(cond)
		return
	}
	if !e.sweep {
		// outside the sweep the condition is still assumed, as execution continues only if it held
		st.assume(cond)
		return
	}
	e.siteN[kind]++
	key := fmt.Sprintf("nopanic[%s#%d]", kind, e.siteN[kind])
	_ = key
	// key by source text so that unrelated edits do not renumber sites
	key = fmt.Sprintf("nopanic[%s %s]", kind, what)
	e.emit(st, "nopanic", key, cond, []string{"C08"}, pos, what)
	st.assume(cond)
}

func (e *Exec) evalIndex(x *ast.IndexExpr, st *State, ctx *Ctx, commaOk bool) (string, string) {
	t := e.typeOf(x.X, ctx)
	switch {
	case isTreeMap(t):
		m := e.eval(x.X, st, ctx)
		k := e.eval(x.Index, st, ctx)
		sel := "(select (mapOf " + m + ") " + k + ")"
		found := "(not (= " + sel + " VAbsent))"
		return "(ite " + found + " " + sel + " VNil)", found
	case isRefMap(t):
		m := e.eval(x.X, st, ctx)
		k := e.eval(x.Index, st, ctx)
		sel := "(select " + m + " " + k + ")"
		return sel, "(not (= " + sel + " 0))"
	case isTreeList(t):
		l := e.eval(x.X, st, ctx)
		i := e.eval(x.Index, st, ctx)
		e.nopanic(st, x.Pos(), "index", "(and (<= 0 "+i+") (< "+i+" (llen (ls "+l+"))))", exprString(x))
		if i == "0" {
			return "(hd (ls " + l + "))", ""
		}
		return "(lnth (ls " + l + ") " + i + ")", ""
	case isStringList(t):
		l := "(sitems " + e.eval(x.X, st, ctx) + ")"
		i := e.eval(x.Index, st, ctx)
		e.nopanic(st, x.Pos(), "index", "(and (<= 0 "+i+") (< "+i+" (sllen "+l+")))", exprString(x))
		if i == "0" {
			return "(shd " + l + ")", ""
		}
		return "(slnth " + l + " " + i + ")", ""
	case isRefList(t):
		l := e.eval(x.X, st, ctx)
		i := e.eval(x.Index, st, ctx)
		e.nopanic(st, x.Pos(), "index", "(and (<= 0 "+i+") (< "+i+" (rllen "+l+")))", exprString(x))
		return "(rlnth " + l + " " + i + ")", ""
	}
	if m, ok := t.Underlying().(*types.Map); ok {
		// other maps (e.g. formatByExtension): uninterpreted lookup
		mv := e.eval(x.X, st, ctx)
		k := e.eval(x.Index, st, ctx)
		fn := "maplookup_" + sanitize(types.TypeString(t, shortQual))
		fo := "mapfound_" + sanitize(types.TypeString(t, shortQual))
		e.global(fn, fmt.Sprintf("(declare-fun %s (%s %s) %s)", fn, sortOf(t), sortOf(m.Key()), sortOf(m.Elem())))
		e.global(fo, fmt.Sprintf("(declare-fun %s (%s %s) Bool)", fo, sortOf(t), sortOf(m.Key())))
		if id, ok := x.X.(*ast.Ident); ok && id.Name == "formatByExtension" {
			if v, ok := e.info(ctx).ObjectOf(id).(*types.Var); ok && v.Pkg() != nil && v.Parent() == v.Pkg().Scope() {
				// the format table: fmtByName(k) is the codec registered under k, 0 if there is none (the definition of fmtByName)
				e.note("formatByExtension[k] is found iff fmtByName(k) != 0 (definition of the spec function fmtByName; the table's content is pinned by the C05 format-table obligations)")
				return "(" + fn + " " + mv + " " + k + ")", "(not (= (fmtByName " + k + ") 0))"
			}
		}
		return "(" + fn + " " + mv + " " + k + ")", "(" + fo + " " + mv + " " + k + ")"
	}
	if sortOf(t) == "String" {
		s := e.eval(x.X, st, ctx)
		i := e.eval(x.Index, st, ctx)
		// s[i] is the i-th BYTE (strByte: the code point where the text up to i is ASCII)
		e.nopanic(st, x.Pos(), "index", "(and (<= 0 "+i+") (< "+i+" (byteLen "+s+")))", exprString(x))
		return "(strByte " + s + " " + i + ")", ""
	}
	if sl, ok := t.Underlying().(*types.Slice); ok {
		l := e.eval(x.X, st, ctx)
		i := e.eval(x.Index, st, ctx)
		ln := "slen_" + sanitize(types.TypeString(t, shortQual))
		e.global(ln, fmt.Sprintf("(declare-fun %s (Int) Int)", ln))
		e.nopanic(st, x.Pos(), "index", "(and (<= 0 "+i+") (< "+i+" ("+ln+" "+l+")))", exprString(x))
		fn := "sidx_" + sanitize(types.TypeString(t, shortQual))
		e.global(fn, fmt.Sprintf("(declare-fun %s (Int Int) %s)", fn, sortOf(sl.Elem())))
		return "(" + fn + " " + l + " " + i + ")", ""
	}
	e.unsupported(x.Pos(), "index on %s", t)
	return "", ""
}

func (e *Exec) evalSlice(x *ast.SliceExpr, st *State, ctx *Ctx) string {
	t := e.typeOf(x.X, ctx)
	v := e.eval(x.X, st, ctx)
	lo, hi := "0", ""
	if x.Low != nil {
		lo = e.eval(x.Low, st, ctx)
	}
	if x.High != nil {
		hi = e.eval(x.High, st, ctx)
	}
	if x.Max != nil {
		e.unsupported(x.Pos(), "3-index slice")
	}
	var ln, take, drop, wrapL, wrapR string
	switch {
	case isTreeList(t):
		ln, take, drop, wrapL, wrapR = "(llen (ls "+v+"))", "ltake", "ldrop", "(VList ", ")"
		v = "(ls " + v + ")"
	case isStringList(t):
		v = "(sitems " + v + ")"
		ln, take, drop, wrapL, wrapR = "(sllen "+v+")", "sltake", "sldrop", "(Slice ", ")"
	case isRefList(t):
		ln, take, drop = "(rllen "+v+")", "rltake", "rldrop"
	case sortOf(t) == "String":
		// s[lo:hi] cuts at BYTE offsets (byteSub: the substring where the text up to hi is ASCII)
		ln = "(byteLen " + v + ")"
		h := hi
		if h == "" {
			h = ln
		}
		e.nopanic(st, x.Pos(), "slice", "(and (<= 0 "+lo+") (<= "+lo+" "+h+") (<= "+h+" "+ln+"))", exprString(x))
		return "(byteSub " + v + " " + lo + " " + h + ")"
	default:
		e.unsupported(x.Pos(), "slice of %s", t)
	}
	h := hi
	if h == "" {
		h = ln
	}
	e.nopanic(st, x.Pos(), "slice", "(and (<= 0 "+lo+") (<= "+lo+" "+h+") (<= "+h+" "+ln+"))", exprString(x))
	r := v
	if hi != "" {
		r = "(" + take + " " + r + " " + hi + ")"
	}
	if lo == "1" {
		switch drop {
		case "ldrop":
			r = "(tl " + r + ")"
		case "sldrop":
			r = "(stl " + r + ")"
		case "rldrop":
			r = "(rtl " + r + ")"
		}
	} else if lo != "0" {
		r = "(" + drop + " " + r + " " + lo + ")"
	}
	return wrapL + r + wrapR
}

func (e *Exec) evalSelector(x *ast.SelectorExpr, st *State, ctx *Ctx) string {
	info := e.info(ctx)
	if sel, ok := info.Selections[x]; ok {
		if sel.Kind() != types.FieldVal {
			e.unsupported(x.Pos(), "method value %s", exprString(x))
		}
		recv := e.eval(x.X, st, ctx)
		rt := info.TypeOf(x.X)
		if _, isPtr := rt.Underlying().(*types.Pointer); !isPtr {
			// field of a struct value (e.g. opts.Positional.InputPaths, bi.Main.Version): uninterpreted projection
			fn := "fld_" + sanitize(fieldKey(rt, x.Sel.Name))
			e.global(fn, fmt.Sprintf("(declare-fun %s (%s) %s)", fn, sortOf(rt), sortOf(info.TypeOf(x))))
			return "(" + fn + " " + recv + ")"
		}
		e.nopanic(st, x.Pos(), "nil-deref", "(not (= "+recv+" 0))", exprString(x))
		key := fieldKey(rt, x.Sel.Name)
		arr := e.heapArr(st, key, info.TypeOf(x))
		return "(select " + arr + " " + recv + ")"
	}
	// package-qualified identifier
	switch o := info.Uses[x.Sel].(type) {
	case *types.Var:
		return e.globalVar(o)
	case *types.Const:
		return e.constTerm(o.Val(), o.Type())
	}
	e.unsupported(x.Pos(), "selector %s", exprString(x))
	return ""
}

func (e *Exec) evalComposite(x *ast.CompositeLit, st *State, ctx *Ctx) string {
	t := e.typeOf(x, ctx)
	switch {
	case isTreeList(t):
		elemT := t.Underlying().(*types.Slice).Elem()
		r := "LNil"
		for i := len(x.Elts) - 1; i >= 0; i-- {
			if _, ok := x.Elts[i].(*ast.KeyValueExpr); ok {
				e.unsupported(x.Pos(), "indexed slice literal")
			}
			r = "(LCons " + e.evalTo(x.Elts[i], elemT, st, ctx) + " " + r + ")"
		}
		return "(VList " + r + ")"
	case isTreeMap(t):
		elemT := t.Underlying().(*types.Map).Elem()
		r := "emptyM"
		for _, el := range x.Elts {
			kv := el.(*ast.KeyValueExpr)
			r = "(store " + r + " " + e.eval(kv.Key, st, ctx) + " " + e.evalTo(kv.Value, elemT, st, ctx) + ")"
		}
		return "(VMap " + r + ")"
	case isStringList(t):
		r := "SNil"
		for i := len(x.Elts) - 1; i >= 0; i-- {
			r = "(SCons " + e.eval(x.Elts[i], st, ctx) + " " + r + ")"
		}
		return "(Slice " + r + ")"
	case isRefList(t):
		r := "RNil"
		for i := len(x.Elts) - 1; i >= 0; i-- {
			r = "(RCons " + e.eval(x.Elts[i], st, ctx) + " " + r + ")"
		}
		return r
	case isRefMap(t):
		if len(x.Elts) == 0 {
			return "emptyRM"
		}
	}
	if _, ok := t.Underlying().(*types.Struct); ok {
		// struct value: opaque
		e.note("struct value literal modelled as an opaque value")
		return e.fresh(st, "structlit", "Int")
	}
	if _, ok := t.Underlying().(*types.Slice); ok {
		e.note(fmt.Sprintf("slice literal of type %s modelled as an opaque value", types.TypeString(t, shortQual)))
		for _, el := range x.Elts {
			if _, isKV := el.(*ast.KeyValueExpr); !isKV {
				if _, isCL := el.(*ast.CompositeLit); !isCL {
					e.eval(el, st, ctx)
				}
			}
		}
		return e.fresh(st, "slicelit", "Int")
	}
	e.unsupported(x.Pos(), "composite literal of type %s", t)
	return ""
}

// evalAlloc models &T{...}: a fresh non-nil reference distinct from every reference known on this path.
func (e *Exec) evalAlloc(cl *ast.CompositeLit, st *State, ctx *Ctx) string {
	t := e.typeOf(cl, ctx)
	if n, ok := t.(*types.Named); ok && n.Obj().Pkg() != nil && n.Obj().Pkg().Path() == "bytes" && n.Obj().Name() == "Buffer" {
		// &bytes.Buffer{}: a write-only byte sink whose content is tracked as a ghost string
		h := e.fresh(st, "buffer", "Int")
		st.assume("(> " + h + " 0)")
		st.bufs[h] = `""`
		e.note("bytes.Buffer is modelled by the string written to it so far; encoders bound to it append encS(codec, value, n) (uninterpreted; n = number of earlier Encode calls)")
		return h
	}
	stt, ok := t.Underlying().(*types.Struct)
	if !ok {
		e.unsupported(cl.Pos(), "address of composite literal of type %s", t)
	}
	r := e.fresh(st, "new", "Int")
	st.assume("(> " + r + " 0)")
	for _, o := range st.allocs {
		st.assume("(not (= " + r + " " + o + "))")
	}
	st.allocs = append(st.allocs, r)
	st.assume("(= " + r + " " + st.top + ")")
	st.top = "(+ " + r + " 1)"
	given := map[string]ast.Expr{}
	for i, el := range cl.Elts {
		if kv, ok := el.(*ast.KeyValueExpr); ok {
			given[kv.Key.(*ast.Ident).Name] = kv.Value
		} else {
			given[stt.Field(i).Name()] = el
		}
	}
	for i := 0; i < stt.NumFields(); i++ {
		f := stt.Field(i)
		key := fieldKey(t, f.Name())
		arr := e.heapArr(st, key, f.Type())
		val := zeroOf(f.Type())
		if gx, ok := given[f.Name()]; ok {
			val = e.evalTo(gx, f.Type(), st, ctx)
		}
		st.heap[key] = "(store " + arr + " " + r + " " + val + ")"
	}
	return r
}
