package main

import (
	"fmt"
	"math/big"
	"go/ast"
	"go/token"
	"go/types"
	"sort"
	"strings"
)

// tryInline executes a call to a repository function that takes a function literal (filterList, filterMap) by
// running the callee's real body with the literal bound to the parameter. Returns false if the call is not of that kind.
func (e *Exec) tryInline(call *ast.CallExpr, st *State, ctx *Ctx, k func(*State, []string)) bool {
	info := e.info(ctx)
	callee := e.calleeOf(call, info)
	if callee != nil && (inlinable(callee) || e.autoInlinable(callee)) {
		e.inlineFunc(callee, call, st, ctx, nil, k)
		return true
	}
	if callee == nil {
		if model, pre, wrap := e.modelFor(call, st, ctx); model != nil {
			e.inlineFunc(model, call, st, ctx, pre, func(st2 *State, vals []string) { k(st2, wrap(st2, vals)) })
			return true
		}
	}
	// call of a function-typed parameter bound to a literal: run the literal's body
	if id, ok := call.Fun.(*ast.Ident); ok {
		if v, ok := info.ObjectOf(id).(*types.Var); ok {
			if lit, ok := st.closures[v]; ok {
				e.inlineLit(lit, call, st, ctx, k)
				return true
			}
		}
	}
	return false
}

// autoInlinable: a repository function WITHOUT a contract (a helper that did not exist when the contracts were written)
// is executed through its real body when that is possible without annotations: a plain function (no receiver, no type
// parameters), not recursive, no loop, no function literal, no defer/go. Everything else without a contract stays an
// unconstrained result at the call site.
func (e *Exec) autoInlinable(fi *FuncInfo) bool {
	return e.w.helperInlinable(fi) && e.w.scc[fi] != e.w.scc[e.fi]
}

func (w *World) helperInlinable(fi *FuncInfo) bool {
	if fi.Contract != nil || fi.Decl == nil || fi.Decl.Body == nil || fi.Decl.Recv != nil || fi.Decl.Type.TypeParams != nil {
		return false
	}
	if w.selfRec[fi] {
		return false
	}
	sig := fi.Obj.Type().(*types.Signature)
	if sig.Variadic() {
		return false
	}
	for i := 0; i < sig.Params().Len(); i++ {
		if _, isFn := sig.Params().At(i).Type().Underlying().(*types.Signature); isFn {
			return false
		}
	}
	ok := true
	ast.Inspect(fi.Decl.Body, func(n ast.Node) bool {
		switch n.(type) {
		case *ast.ForStmt, *ast.RangeStmt, *ast.FuncLit, *ast.DeferStmt, *ast.GoStmt, *ast.SelectStmt, *ast.LabeledStmt, *ast.BranchStmt:
			ok = false
		}
		return ok
	})
	return ok
}

// inlinedEverywhere: the helper has call sites, and every one of them is at a position where the executor runs the
// helper's body in the caller's context (a call statement, the only right-hand side of an assignment, the only result of
// a return, the condition of an if), inside a function that is itself executed. Its run-time checks are then obligations
// of its callers, with the callers' path conditions, and the sweep does not demand them for arbitrary arguments.
func (w *World) inlinedEverywhere(fi *FuncInfo) bool {
	return w.inlinedEverywhereRec(fi, map[*FuncInfo]bool{})
}

func (w *World) inlinedEverywhereRec(fi *FuncInfo, busy map[*FuncInfo]bool) bool {
	if !w.helperInlinable(fi) || busy[fi] {
		return false
	}
	busy[fi] = true
	defer delete(busy, fi)
	sites := 0
	ok := true
	for _, g := range w.Funcs {
		if g.Decl == nil || g.Decl.Body == nil {
			continue
		}
		info := g.Pkg.TypesInfo
		good := map[*ast.CallExpr]bool{}
		strip := func(x ast.Expr) ast.Expr {
			for {
				switch y := x.(type) {
				case *ast.ParenExpr:
					x = y.X
					continue
				case *ast.UnaryExpr:
					if y.Op == token.NOT {
						x = y.X
						continue
					}
				}
				return x
			}
		}
		mark := func(x ast.Expr) {
			if c, isCall := x.(*ast.CallExpr); isCall {
				good[c] = true
			}
		}
		ast.Inspect(g.Decl.Body, func(n ast.Node) bool {
			switch y := n.(type) {
			case *ast.ExprStmt:
				mark(y.X)
			case *ast.AssignStmt:
				if len(y.Rhs) == 1 {
					mark(y.Rhs[0])
				}
			case *ast.ReturnStmt:
				if len(y.Results) == 1 {
					mark(y.Results[0])
				}
			case *ast.IfStmt:
				mark(strip(y.Cond))
			case *ast.FuncLit:
				return false
			}
			return true
		})
		ast.Inspect(g.Decl.Body, func(n ast.Node) bool {
			c, isCall := n.(*ast.CallExpr)
			if !isCall || w.calleeOfCall(c, info) != fi {
				return true
			}
			sites++
			if !good[c] || g == fi || w.scc[g] == w.scc[fi] {
				ok = false
			} else if g.Contract == nil && !w.inlinedEverywhereRec(g, busy) {
				ok = false
			}
			return true
		})
	}
	return ok && sites > 0
}

// pre: terms for parameters that are not taken from the call's argument list (library models, see modelFor).
func (e *Exec) inlineFunc(callee *FuncInfo, call *ast.CallExpr, st *State, ctx *Ctx, pre map[int]string, k func(*State, []string)) {
	if e.inlineDepth > 6 {
		e.unsupported(call.Pos(), "inlining too deep")
	}
	sig := callee.Obj.Type().(*types.Signature)
	cinfo := callee.Pkg.TypesInfo
	for i := 0; i < sig.Params().Len(); i++ {
		p := sig.Params().At(i)
		if t, ok := pre[i]; ok {
			st.env[p] = t
			continue
		}
		if i >= len(call.Args) {
			e.unsupported(call.Pos(), "variadic inlined call")
		}
		if _, isFn := p.Type().Underlying().(*types.Signature); isFn {
			lit, ok := call.Args[i].(*ast.FuncLit)
			if !ok {
				// a function-typed variable that is itself bound to a literal
				if id, ok2 := call.Args[i].(*ast.Ident); ok2 {
					if v, ok3 := e.info(ctx).ObjectOf(id).(*types.Var); ok3 {
						if l2, ok4 := st.closures[v]; ok4 {
							lit, ok = l2, true
						}
					}
				}
			}
			if !ok {
				e.unsupported(call.Args[i].Pos(), "function argument of %s is not a literal", callee.Name)
			}
			st.closures[p] = lit
			if e.closureInfo[lit] == nil {
				e.closureInfo[lit] = e.info(ctx)
			}
			continue
		}
		st.env[p] = e.evalTo(call.Args[i], p.Type(), st, ctx)
	}
	ord := e.callOrd[call]
	if ord == "" {
		e.numberCalls(ctx.frame.declOf(), e.info(ctx))
		ord = e.callOrd[call]
	}
	fr := &frame{fi: callee, loopKey: ctx.frame.loopKey + ord + "/", contract: callee.Contract, info: cinfo, loopOrd: numberLoops(callee.Decl)}
	for i := 0; i < sig.Results().Len(); i++ {
		rv := sig.Results().At(i)
		fr.resTypes = append(fr.resTypes, rv.Type())
		if rv.Name() != "" && rv.Name() != "_" {
			st.env[rv] = zeroOf(rv.Type())
			fr.results = append(fr.results, rv)
		}
	}
	e.inlineDepth++
	e.callSites = append(e.callSites, call.Pos())
	depth := e.inlineDepth
	sites := len(e.callSites)
	savedGhosts := map[string]string{}
	for n, v := range st.ghosts {
		savedGhosts[n] = v
	}
	fr.ret = func(st2 *State, vals []string) {
		// the loop ghosts of the inlined body are out of scope again
		restoreGhosts(savedGhosts, func(*State) {})(st2)
		// run the caller's continuation with the caller's inlining context
		sd, ss := e.inlineDepth, e.callSites
		e.inlineDepth = depth - 1
		e.callSites = e.callSites[:sites-1]
		k(st2, vals)
		e.inlineDepth, e.callSites = sd, ss
	}
	nctx := &Ctx{frame: fr}
	e.execBlock(callee.Decl.Body.List, st, nctx, func(st2 *State) {
		var vals []string
		for _, rv := range fr.results {
			vals = append(vals, st2.env[rv])
		}
		fr.ret(st2, vals)
	})
	e.inlineDepth = depth - 1
	e.callSites = e.callSites[:sites-1]
}

func (e *Exec) inlineLit(lit *ast.FuncLit, call *ast.CallExpr, st *State, ctx *Ctx, k func(*State, []string)) {
	linfo := e.closureInfo[lit]
	if linfo == nil {
		linfo = e.info(ctx)
	}
	sig := linfo.TypeOf(lit).(*types.Signature)
	n := 0
	for _, f := range lit.Type.Params.List {
		for _, name := range f.Names {
			pv, _ := linfo.Defs[name].(*types.Var)
			if n >= len(call.Args) {
				e.unsupported(call.Pos(), "closure call arity")
			}
			if pv != nil {
				st.env[pv] = e.evalTo(call.Args[n], pv.Type(), st, ctx)
			}
			n++
		}
	}
	// the literal's body runs in the frame chain of the function that wrote it: loops inside it are keyed there
	fr := &frame{fi: nil, loopKey: "", contract: e.fi.Contract, info: linfo, loopOrd: e.loopOrd}
	for i := 0; i < sig.Results().Len(); i++ {
		fr.resTypes = append(fr.resTypes, sig.Results().At(i).Type())
	}
	fr.ret = func(st2 *State, vals []string) { k(st2, vals) }
	nctx := &Ctx{frame: fr}
	e.execBlock(lit.Body.List, st, nctx, func(st2 *State) { fr.ret(st2, nil) })
}

// evalCall evaluates a call that is not inlined and returns its result terms.
func (e *Exec) evalCall(call *ast.CallExpr, st *State, ctx *Ctx) []string {
	info := e.info(ctx)
	// conversion T(x)
	if tv, ok := info.Types[call.Fun]; ok && tv.IsType() {
		if len(call.Args) != 1 {
			e.unsupported(call.Pos(), "conversion arity")
		}
		from := e.typeOf(call.Args[0], ctx)
		v := e.eval(call.Args[0], st, ctx)
		return []string{e.convExplicit(v, from, tv.Type, st, call.Pos())}
	}
	// builtins
	if id, ok := call.Fun.(*ast.Ident); ok {
		if b, ok := info.Uses[id].(*types.Builtin); ok {
			return e.evalBuiltin(b.Name(), call, st, ctx)
		}
	}
	if callee := e.calleeOf(call, info); callee != nil {
		if inlinable(callee) {
			e.unsupported(call.Pos(), "call of %s in a position where it cannot be inlined", callee.Name)
		}
		return e.applyContract(callee, call, st, ctx)
	}
	if id, ok := call.Fun.(*ast.Ident); ok {
		if v, ok := info.ObjectOf(id).(*types.Var); ok {
			if _, isClosure := st.closures[v]; isClosure {
				e.unsupported(call.Pos(), "closure call in expression position")
			}
		}
	}
	return e.evalExternal(call, st, ctx)
}

func (e *Exec) convExplicit(v string, from, to types.Type, st *State, pos token.Pos) string {
	if isAny(to) {
		return wrapVal(v, from)
	}
	fs, ts := sortOf(from), sortOf(to)
	if fs == ts {
		fb, ok1 := from.Underlying().(*types.Basic)
		tb, ok2 := to.Underlying().(*types.Basic)
		if ok1 && ok2 && fb.Info()&types.IsInteger != 0 && tb.Info()&types.IsInteger != 0 {
			// integer narrowing: int64 -> int is the identity on 64-bit platforms (assumed); a conversion to a narrower type
			// wraps around (two's complement), as in Go
			bits := map[types.BasicKind]int{types.Int8: 8, types.Int16: 16, types.Int32: 32, types.Uint8: 8, types.Uint16: 16, types.Uint32: 32}
			if k, narrow := bits[tb.Kind()]; narrow && fb.Kind() != tb.Kind() {
				mod := new(big.Int).Lsh(big.NewInt(1), uint(k)).String()
				if tb.Info()&types.IsUnsigned != 0 {
					return "(mod " + v + " " + mod + ")"
				}
				half := new(big.Int).Lsh(big.NewInt(1), uint(k-1)).String()
				return "(- (mod (+ " + v + " " + half + ") " + mod + ") " + half + ")"
			}
			if tb.Kind() != types.Int && tb.Kind() != types.Int64 && tb.Kind() != types.UntypedInt && tb.Kind() != fb.Kind() {
				e.note("integer conversion to " + tb.Name() + " treated as the identity")
			}
		}
		return v
	}
	if fs == "Int" && ts == "String" {
		fn := "runeToString"
		e.global(fn, "(declare-fun runeToString (Int) String)")
		return "(" + fn + " " + v + ")"
	}
	e.note(fmt.Sprintf("conversion %s -> %s modelled as an uninterpreted value", types.TypeString(from, shortQual), types.TypeString(to, shortQual)))
	return e.fresh(st, "conv", ts)
}

func (e *Exec) evalBuiltin(name string, call *ast.CallExpr, st *State, ctx *Ctx) []string {
	switch name {
	case "len":
		t := e.typeOf(call.Args[0], ctx)
		v := e.eval(call.Args[0], st, ctx)
		switch {
		case isTreeMap(t):
			return []string{"(mlen (mapOf " + v + "))"}
		case isTreeList(t):
			return []string{"(llen (ls " + v + "))"}
		case isStringList(t):
			return []string{"(sllen (sitems " + v + "))"}
		case isRefList(t):
			return []string{"(rllen " + v + ")"}
		case sortOf(t) == "String":
			// len of a string counts bytes, not code points (byteLen: >= str.len, equal for ASCII text)
			return []string{"(byteLen " + v + ")"}
		}
		if _, ok := t.Underlying().(*types.Slice); ok {
			ln := "slen_" + sanitize(types.TypeString(t, shortQual))
			e.global(ln, fmt.Sprintf("(declare-fun %s (Int) Int)", ln))
			e.global(ln+"_nn", fmt.Sprintf("(assert (forall ((x Int)) (! (>= (%s x) 0) :pattern ((%s x)))))", ln, ln))
			return []string{"(" + ln + " " + v + ")"}
		}
		r := e.fresh(st, "len", "Int")
		st.assume("(>= " + r + " 0)")
		return []string{r}
	case "append":
		t := e.typeOf(call, ctx)
		base := e.eval(call.Args[0], st, ctx)
		var app, snoc string
		var elemT types.Type
		switch {
		case isTreeList(t):
			app, snoc = "app", "snoc"
			elemT = t.Underlying().(*types.Slice).Elem()
			base = "(ls " + base + ")"
		case isStringList(t):
			app, snoc = "sapp", "ssnoc"
			elemT = t.Underlying().(*types.Slice).Elem()
			base = "(sitems " + base + ")"
		case isRefList(t):
			app, snoc = "rapp", "rsnoc"
			elemT = t.Underlying().(*types.Slice).Elem()
		default:
			for _, a := range call.Args[1:] {
				e.eval(a, st, ctx)
			}
			e.note("append on " + types.TypeString(t, shortQual) + " modelled as an uninterpreted value")
			return []string{e.fresh(st, "append", sortOf(t))}
		}
		r := base
		if call.Ellipsis != token.NoPos {
			if len(call.Args) != 2 {
				e.unsupported(call.Pos(), "append with ellipsis and several arguments")
			}
			y := e.eval(call.Args[1], st, ctx)
			if isTreeList(t) {
				y = "(ls " + y + ")"
			}
			if isStringList(t) {
				y = "(sitems " + y + ")"
			}
			r = "(" + app + " " + r + " " + y + ")"
		} else {
			for _, a := range call.Args[1:] {
				v := e.evalTo(a, elemT, st, ctx)
				v = e.snapshotIfMutatedLater(a, v, st, ctx)
				r = "(" + snoc + " " + r + " " + v + ")"
			}
		}
		if isTreeList(t) {
			r = "(VList " + r + ")"
		}
		if isStringList(t) {
			// append(nil) with nothing appended stays nil; anything else is a non-nil slice
			if len(call.Args) == 1 {
				r = e.eval(call.Args[0], st, ctx)
			} else if call.Ellipsis != token.NoPos {
				b0 := e.eval(call.Args[0], st, ctx)
				r = "(ite (and ((_ is SliceNil) " + b0 + ") (= (sitems " + e.eval(call.Args[1], st, ctx) + ") SNil)) SliceNil (Slice " + r + "))"
			} else {
				r = "(Slice " + r + ")"
			}
		}
		return []string{r}
	case "delete":
		t := e.typeOf(call.Args[0], ctx)
		m := e.eval(call.Args[0], st, ctx)
		kx := e.eval(call.Args[1], st, ctx)
		switch {
		case isTreeMap(t):
			e.assignTo(call.Args[0], "(ite ((_ is VMap) "+m+") (VMap (store (mc "+m+") "+kx+" VAbsent)) "+m+")", st, ctx)
		case isRefMap(t):
			e.assignTo(call.Args[0], "(store "+m+" "+kx+" 0)", st, ctx)
		default:
			e.note("delete on " + types.TypeString(t, shortQual) + " is not modelled")
		}
		return nil
	case "make":
		t := e.typeOf(call, ctx)
		var szs []string
		for _, a := range call.Args[1:] {
			szs = append(szs, e.eval(a, st, ctx))
		}
		if _, isSlice := t.Underlying().(*types.Slice); isSlice && len(szs) > 0 {
			// make([]T, len[, cap]) panics at run time unless 0 <= len <= cap
			e.nopanic(st, call.Pos(), "make-len", "(>= "+szs[0]+" 0)", exprString(call))
			if len(szs) == 2 {
				e.nopanic(st, call.Pos(), "make-cap", "(>= "+szs[1]+" "+szs[0]+")", exprString(call))
			}
			n := szs[0]
			switch {
			case isTreeList(t):
				return []string{"(VList (lrepeat VNil " + n + "))"}
			case isStringList(t) && n == "0":
				return []string{"(Slice SNil)"}
			case isRefList(t) && n == "0":
				return []string{"RNil"}
			}
		}
		switch {
		case isTreeMap(t):
			return []string{"(VMap emptyM)"}
		case isRefMap(t):
			return []string{"emptyRM"}
		}
		e.note("make(" + types.TypeString(t, shortQual) + ") modelled as an opaque value")
		return []string{e.fresh(st, "make", sortOf(t))}
	case "panic":
		e.nopanic(st, call.Pos(), "explicit-panic", "false", exprString(call))
		return nil
	case "min", "max":
		a := e.eval(call.Args[0], st, ctx)
		b := e.eval(call.Args[1], st, ctx)
		if name == "min" {
			return []string{"(ite (< " + a + " " + b + ") " + a + " " + b + ")"}
		}
		return []string{"(ite (> " + a + " " + b + ") " + a + " " + b + ")"}
	}
	e.unsupported(call.Pos(), "builtin %s", name)
	return nil
}

// snapshotIfMutatedLater implements the deferred snapshot (DESIGN §4): a local map that is appended to a list and
// assigned through afterwards (findOutputsMap: outs = append(outs, ret) before ret is filled) is stored as a fresh
// constant that is constrained, at every exit of the function, to the final content of the local.
func (e *Exec) snapshotIfMutatedLater(arg ast.Expr, val string, st *State, ctx *Ctx) string {
	id, ok := arg.(*ast.Ident)
	if !ok {
		return val
	}
	v, ok := e.info(ctx).ObjectOf(id).(*types.Var)
	if !ok || !isTreeMap(v.Type()) {
		return val
	}
	mutated := false
	var body *ast.BlockStmt
	if ctx.frame.fi != nil {
		body = ctx.frame.fi.Decl.Body
	}
	if body == nil {
		return val
	}
	ast.Inspect(body, func(n ast.Node) bool {
		as, ok := n.(*ast.AssignStmt)
		if !ok || as.Pos() < arg.Pos() {
			return true
		}
		for _, l := range as.Lhs {
			if ix, ok := l.(*ast.IndexExpr); ok {
				if b, ok := ix.X.(*ast.Ident); ok && e.info(ctx).ObjectOf(b) == v {
					mutated = true
				}
			}
		}
		return true
	})
	if !mutated {
		return val
	}
	if s, ok := st.snaps[v]; ok {
		return s
	}
	s := e.fresh(st, v.Name()+"_final", "Val")
	st.pc = append(st.pc, "((_ is VMap) "+s+")")
	st.snaps[v] = s
	e.note("deferred snapshot: " + v.Name() + " is stored before it is filled; the stored value is its content at function exit (requires that the container is not inspected in between)")
	return s
}

// applyContract replaces a call by the callee's contract: preconditions become obligations, postconditions assumptions.
func (e *Exec) applyContract(callee *FuncInfo, call *ast.CallExpr, st *State, ctx *Ctx) []string {
	info := e.info(ctx)
	sig := callee.Obj.Type().(*types.Signature)
	names := map[string]string{}
	var args []string
	if sig.Recv() != nil {
		sel, ok := call.Fun.(*ast.SelectorExpr)
		if !ok {
			e.unsupported(call.Pos(), "method call form")
		}
		r := e.eval(sel.X, st, ctx)
		if _, isPtr := info.TypeOf(sel.X).Underlying().(*types.Pointer); isPtr {
			e.nopanic(st, call.Pos(), "nil-deref", "(not (= "+r+" 0))", exprString(sel.X)+"."+sel.Sel.Name+"()")
		}
		names[sig.Recv().Name()] = r
		args = append(args, r)
	}
	np := sig.Params().Len()
	for i := 0; i < np; i++ {
		p := sig.Params().At(i)
		var v string
		if sig.Variadic() && i == np-1 {
			// variadic tail: build the slice
			if call.Ellipsis != token.NoPos {
				v = e.evalTo(call.Args[i], p.Type(), st, ctx)
			} else {
				elemT := p.Type().(*types.Slice).Elem()
				switch {
				case isRefList(p.Type()):
					v = "RNil"
					for j := len(call.Args) - 1; j >= i; j-- {
						v = "(RCons " + e.evalTo(call.Args[j], elemT, st, ctx) + " " + v + ")"
					}
				case isTreeList(p.Type()):
					v = "LNil"
					for j := len(call.Args) - 1; j >= i; j-- {
						v = "(LCons " + e.evalTo(call.Args[j], elemT, st, ctx) + " " + v + ")"
					}
					v = "(VList " + v + ")"
				default:
					for j := i; j < len(call.Args); j++ {
						e.eval(call.Args[j], st, ctx)
					}
					v = e.fresh(st, "variadic", sortOf(p.Type()))
				}
			}
		} else {
			if i >= len(call.Args) {
				e.unsupported(call.Pos(), "call arity")
			}
			v = e.evalTo(call.Args[i], p.Type(), st, ctx)
		}
		if len(v) > 120 {
			c := e.fresh(st, "arg_"+p.Name(), sortOf(p.Type()))
			st.assume("(= " + c + " " + v + ")")
			v = c
		}
		names[p.Name()] = v
		names[p.Name()+"@pre"] = v
		args = append(args, v)
	}
	c := callee.Contract
	site := e.siteOf(call, callee, ctx)
	names["allocTop@before"] = st.top
	heapBefore := map[string]string{}
	for k, v := range st.heap {
		heapBefore[k] = v
	}
	if mc := e.fi.Contract; mc != nil {
		if sp, ok := mc.Loops["@"+strings.TrimSuffix(strings.TrimPrefix(site, "call["), "]")]; ok {
			for i, a := range sp.Invariants {
				// the callee's parameters are visible as <name>@arg (the argument values at this call)
				argNames := map[string]string{}
				for pn, pv := range names {
					if !strings.Contains(pn, "@") {
						argNames[pn+"@arg"] = pv
					}
				}
				goal := e.clause(a.X, st, argNames, call.Pos(), info, clauseInv)
				e.emit(st, "assert", fmt.Sprintf("%s.assert[%d]", site, i+1), goal, a.Tags, call.Pos(), a.Src)
				st.assume(goal)
			}
		}
	}
	if c != nil {
		for i, r := range c.Requires {
			goal := e.calleeClause(r.X, st, names, heapBefore)
			e.emit(st, "pre", fmt.Sprintf("%s.pre[%d]", site, i+1), goal, r.Tags, call.Pos(), callee.Name+" requires "+r.Src)
		}
		// termination: calls inside a recursive component must decrease the caller's measure
		if e.sweep && e.fi.Contract != nil && e.w.sameSCC(e.fi, callee) {
			e.termOb(callee, names, st, call, heapBefore, site)
		}
	} else if e.sweep && e.w.sameSCC(e.fi, callee) {
		e.emit(st, "term", fmt.Sprintf("%s.decreases", site), "false", []string{"C08"}, call.Pos(), "recursive call without a measure (callee has no contract)")
	}
	// heap effects
	mods := e.w.modset(callee)
	if c != nil && len(c.Modifies) > 0 {
		mods = map[string]types.Type{}
		for _, m := range c.Modifies {
			if m == "nothing" {
				continue
			}
			key := m
			if i := strings.Index(m, "["); i >= 0 {
				key = m[:i]
			}
			if ft, ok := e.w.Fields[key]; ok {
				mods[key] = ft
			}
		}
	}
	var mk []string
	for k := range mods {
		mk = append(mk, k)
	}
	sort.Strings(mk)
	calleeOwnW := e.w.ownWrites(callee)
	var frameFacts []string
	for _, k := range mk {
		e.heapArr(st, k, mods[k])
		heapBefore[k] = st.heap[k]
		st.heap[k] = e.fresh(st, "H_"+sanitize(k), "(Array Int "+sortOf(mods[k])+")")
		if len(calleeOwnW[k]) == 0 {
			// the ownership/frame pass shows that the callee writes this field only on objects it allocates itself:
			// every object that existed before the call keeps it
			frameFacts = append(frameFacts, "(forall ((r Int)) (! (=> (< r "+st.top+") (= (select "+st.heap[k]+" r) (select "+heapBefore[k]+" r))) :pattern ((select "+st.heap[k]+" r))))")
			e.note("frame facts from the ownership pass: a callee that writes a field only on objects it allocates leaves that field of all existing objects unchanged")
		}
	}
	for _, f := range frameFacts {
		st.assume(f)
	}
	// the callee may allocate: the boundary moves up by an unknown amount
	topBefore := st.top
	topAfter := e.fresh(st, "allocTop", "Int")
	st.assume("(>= " + topAfter + " " + topBefore + ")")
	st.top = topAfter
	names["allocTop@after"] = topAfter
	// results
	var res []string
	for i := 0; i < sig.Results().Len(); i++ {
		rt := sig.Results().At(i).Type()
		hint := "r"
		if c != nil && i < len(c.Results) {
			hint = c.Results[i]
		}
		r := e.fresh(st, callee.Decl.Name.Name+"_"+hint, sortOf(rt))
		if inv := typeInv(r, rt); inv != "" {
			st.assume(inv)
		}
		if isPtrToStruct(rt) {
			st.assume("(and (>= " + r + " 0) (< " + r + " " + topAfter + "))")
		}
		res = append(res, r)
		if c != nil && i < len(c.Results) {
			names[c.Results[i]] = r
		}
	}
	// parameters the callee writes in place: the caller's variable no longer holds the old content
	for i := range e.w.mutParams[callee] {
		if i >= len(call.Args) {
			continue
		}
		pname := sig.Params().At(i).Name()
		if c != nil && (contains(c.Consumes, pname)) {
			continue // ownership moved to the callee: the ownership pass checks the argument is not used again
		}
		id, ok := call.Args[i].(*ast.Ident)
		if !ok {
			e.note("in-place mutation of a non-variable argument by " + callee.Name + " is not tracked")
			continue
		}
		v, ok := info.ObjectOf(id).(*types.Var)
		if !ok {
			continue
		}
		nt := e.fresh(st, v.Name()+"_post", sortOf(v.Type()))
		if inv := typeInv(nt, v.Type()); inv != "" {
			st.assume(inv)
		}
		if st.nonNil[v] {
			st.assume("((_ is VMap) " + nt + ")")
		}
		st.env[v] = nt
		names[pname+"@post"] = nt
	}
	if c != nil {
		for _, en := range c.Ensures {
			st.assume(e.calleeClause(en.X, st, names, heapBefore))
		}
		if c.Trusted {
			e.note("assumed contract (body not verified): " + callee.Key)
		}
	} else {
		e.note("callee without contract, results unconstrained: " + callee.Key)
	}
	// remember the error this call returned on this path (for the caller's `propagates` / `fails-only-through-calls`
	// clauses), also for the call sites of helpers that are executed through their bodies
	{
		for i := 0; i < sig.Results().Len() && i < len(res); i++ {
			if isErrorType(sig.Results().At(i).Type()) {
				if st.callErrs == nil {
					st.callErrs = map[string]string{}
				}
				st.callErrs[site] = res[i]
			}
		}
	}
	return res
}

// termOb emits the obligation that a recursive call decreases the measure.
// siteOf names a call site structurally: callee name and its ordinal among the calls to that callee in the enclosing
// function's source (prefixed by the inlining chain for calls inside an inlined body).
func (e *Exec) siteOf(call *ast.CallExpr, callee *FuncInfo, ctx *Ctx) string {
	ord := e.callOrd[call]
	if ord == "" {
		if d := ctx.frame.declOf(); d != nil {
			e.numberCalls(d, e.info(ctx))
		}
		ord = e.callOrd[call]
	}
	if ord == "" {
		ord = callee.Name + "#0"
	}
	return "call[" + ctx.frame.loopKey + ord + "]"
}

func (e *Exec) termOb(callee *FuncInfo, names map[string]string, st *State, call *ast.CallExpr, heapBefore map[string]string, site string) {
	cc, mc := callee.Contract, e.fi.Contract
	if len(mc.Decr) == 0 || len(cc.Decr) == 0 {
		if e.sweep {
			e.emit(st, "term", site+".decreases", "false", []string{"C08"}, call.Pos(), "recursive call but no decreases clause on "+e.fi.Name+" or "+callee.Name)
		}
		return
	}
	var callerM, calleeM []string
	for _, d := range mc.Decr {
		callerM = append(callerM, e.clause(slist(atom("old"), d), st, nil, e.fi.Decl.Body.Lbrace, e.fi.Pkg.TypesInfo, clauseEntry))
	}
	for _, d := range cc.Decr {
		calleeM = append(calleeM, e.calleeClause(d, st, names, heapBefore))
	}
	for len(callerM) < len(calleeM) {
		callerM = append(callerM, "0")
	}
	for len(calleeM) < len(callerM) {
		calleeM = append(calleeM, "0")
	}
	e.emit(st, "term", site+".decreases", lexLess(calleeM, callerM), []string{"C08"}, call.Pos(), "measure of "+callee.Name+" below measure of "+e.fi.Name)
}

func contains(xs []string, x string) bool {
	for _, y := range xs {
		if y == x {
			return true
		}
	}
	return false
}
