package main

import (
	"go/constant"
	"fmt"
	"go/ast"
	"go/token"
	"go/types"
	"os"
	"path/filepath"
	"sort"
	"strings"
)

// Effects pass (backend "own", kind "effects"): classifies calls that leave the process (file system, stdout/stderr,
// exec, exit, environment) and checks the effect clauses of the contracts; DESIGN §2.7.

var effectClass = map[string]string{
	"os.Open": "read-content", "os.ReadFile": "read-content", "os.ReadDir": "read-content", "io/ioutil.ReadFile": "read-content",
	"io/ioutil.ReadAll": "read-content", "io.ReadAll": "read-content", "os.DirFS": "read-content", "io/fs.ReadFile": "read-content",
	"os.Root.Open": "read-content", "os.Root.OpenFile": "read-content", "os.Root.ReadFile": "read-content", "os.File.Read": "read-content",
	"os.OpenRoot": "open-root", "os.Root.OpenRoot": "open-root", "os.OpenInRoot": "read-content",
	"os.Stat": "probe", "os.Lstat": "probe", "path/filepath.Glob": "probe", "path/filepath.EvalSymlinks": "probe",
	"path/filepath.Abs": "probe", "os.Getwd": "probe", "os.Readlink": "probe", "path/filepath.Walk": "probe", "path/filepath.WalkDir": "probe",
	"os.OpenFile": "write-file", "os.Create": "write-file", "os.CreateTemp": "write-file", "os.WriteFile": "write-file", "os.File.Write": "write-file",
	"fmt.Printf": "stdout", "fmt.Println": "stdout", "fmt.Print": "stdout",
	"log.Printf": "stderr", "log.Println": "stderr", "log.Fatal": "stderr", "log.Fatalf": "stderr",
	"syscall.Exec": "exec", "os/exec.Command": "exec", "os/exec.Cmd.Run": "exec", "os/exec.Cmd.Start": "exec", "os.StartProcess": "exec",
	"os.Exit": "exit",
	"os.Getenv": "env", "os.Environ": "env", "os.LookupEnv": "env",
}

// existenceProbe: calls whose result depends on which files exist (as opposed to path arithmetic such as filepath.Abs)
var existenceProbe = map[string]bool{"os.Stat": true, "os.Lstat": true, "path/filepath.Glob": true, "path/filepath.EvalSymlinks": true,
	"os.Readlink": true, "path/filepath.Walk": true, "path/filepath.WalkDir": true}

type effSite struct {
	class string
	name  string
	pos   token.Pos
	call  *ast.CallExpr
}

func extFuncName(call *ast.CallExpr, info *types.Info) string {
	var id *ast.Ident
	switch f := call.Fun.(type) {
	case *ast.Ident:
		id = f
	case *ast.SelectorExpr:
		id = f.Sel
	}
	if id == nil {
		return ""
	}
	fn, ok := info.Uses[id].(*types.Func)
	if !ok || fn.Pkg() == nil {
		return ""
	}
	sig := fn.Type().(*types.Signature)
	if r := sig.Recv(); r != nil {
		t := r.Type()
		if p, ok := t.(*types.Pointer); ok {
			t = p.Elem()
		}
		if n, ok := t.(*types.Named); ok {
			return fn.Pkg().Path() + "." + n.Obj().Name() + "." + fn.Name()
		}
		// interface method (io.Writer.Write, io.ReadCloser.Close): package of the interface
		return fn.Pkg().Path() + ".?." + fn.Name()
	}
	return fn.Pkg().Path() + "." + fn.Name()
}

// directEffects lists the effectful external calls written in fi's body.
func directEffects(w *World, fi *FuncInfo) []effSite {
	info := fi.Pkg.TypesInfo
	var out []effSite
	ast.Inspect(fi.Decl.Body, func(n ast.Node) bool {
		c, ok := n.(*ast.CallExpr)
		if !ok {
			return true
		}
		name := extFuncName(c, info)
		if name == "" {
			return true
		}
		cls, ok := effectClass[name]
		if !ok {
			// fmt.Fprintf(os.Stderr|os.Stdout, ...)
			if name == "fmt.Fprintf" || name == "fmt.Fprintln" || name == "fmt.Fprint" {
				cls = "write-handle"
				if len(c.Args) > 0 {
					switch exprString(c.Args[0]) {
					case "os.Stderr":
						cls = "stderr"
					case "os.Stdout":
						cls = "stdout"
					}
				}
			} else if strings.HasSuffix(name, ".?.Write") || name == "io.Writer.Write" {
				cls = "write-handle"
			} else {
				return true
			}
		}
		out = append(out, effSite{cls, name, c.Pos(), c})
		return true
	})
	return out
}

func posStr(w *World, p token.Pos) string {
	pp := w.Fset.Position(p)
	return fmt.Sprintf("%s:%d", strings.TrimPrefix(pp.Filename, w.RepoDir+"/"), pp.Line)
}

// effectsPass produces the effects obligations of a property.
func effectsPass(w *World, id string) []*OwnOb {
	var out []*OwnOb
	add := func(key, kind string, ok bool, pos, why string) {
		out = append(out, &OwnOb{Key: key, Kind: kind, OK: ok, Pos: pos, Why: why})
	}
	var lib []*FuncInfo
	for _, fi := range w.Funcs {
		lib = append(lib, fi)
	}
	sort.Slice(lib, func(i, j int) bool { return lib[i].Key < lib[j].Key })
	declared := func(fi *FuncInfo, cls, name string) bool {
		if fi.Contract == nil {
			return false
		}
		short := name[strings.LastIndex(name, "/")+1:]
		for _, e := range fi.Contract.Effects {
			if e == cls || e == cls+":"+short || e == cls+":"+name {
				return true
			}
		}
		return false
	}
	switch id {
	case "C01", "C02", "C03", "C04", "C05", "C06", "C07", "C10", "C11", "C12", "C13", "C14", "C15", "C16", "C17", "C19", "C20":
		// every proof that goes through filterMap or ranges sortedMap uses its assumed contract
		out = append(out, checkSortedMap(w)...)
	}
	switch id {
	case "C01", "C02", "C04", "C07", "C09", "C10", "C12", "C15", "C16", "C17", "C19", "C20":
		// the ownership obligations rest on the assumed contract of deepClone (an equal tree that shares nothing)
		out = append(out, checkDeepClone(w)...)
	}
	switch id {
	case "C18":
		// E1: content is read, and root handles are opened, only where the contracts say so
		for _, fi := range lib {
			if fi.PkgDir != "." {
				continue
			}
			for _, s := range directEffects(w, fi) {
				if s.class != "read-content" && s.class != "open-root" {
					continue
				}
				short := s.name[strings.LastIndex(s.name, "/")+1:]
				add(fmt.Sprintf("%s.effects[%s %s]", fi.Key, s.class, short), "effects", declared(fi, s.class, s.name), posStr(w, s.pos),
					fmt.Sprintf("%s calls %s (%s) but its contract does not allow it: file content may only be read through the parser's root handle in loadFile", fi.Name, s.name, s.class))
			}
		}
		// E1b: existence probes that do not go through the root handle (they see files outside the root: finding K3) are
		// only the ones the contracts name; a new one is reported
		for _, fi := range lib {
			if fi.PkgDir != "." {
				continue
			}
			for _, s := range directEffects(w, fi) {
				if s.class != "probe" || !existenceProbe[s.name] {
					continue
				}
				short := s.name[strings.LastIndex(s.name, "/")+1:]
				named := false
				if fi.Contract != nil {
					for _, e := range fi.Contract.Effects {
						if e == "probe:"+short {
							named = true
						}
					}
				}
				add(fmt.Sprintf("%s.effects[probe %s]", fi.Key, short), "effects", named, posStr(w, s.pos),
					fmt.Sprintf("%s calls %s, which looks at the file system without going through the parser's root handle, and its contract does not name it: whether files outside the root exist can change the result", fi.Name, s.name))
			}
		}
		// the allowed sites must exist (vacuity) and have the required data flow
		out = append(out, checkLoadFile(w)...)
		out = append(out, checkSetRoot(w)...)
		out = append(out, checkMainRootOrder(w)...)
	case "C09":
		// no function writes a package-level variable
		for _, fi := range lib {
			info := fi.Pkg.TypesInfo
			bad := ""
			ast.Inspect(fi.Decl.Body, func(n ast.Node) bool {
				as, ok := n.(*ast.AssignStmt)
				if !ok {
					return true
				}
				for _, l := range as.Lhs {
					x := l
					for {
						switch y := x.(type) {
						case *ast.IndexExpr:
							x = y.X
							continue
						case *ast.ParenExpr:
							x = y.X
							continue
						}
						break
					}
					if idn, ok := x.(*ast.Ident); ok {
						if v, ok := info.ObjectOf(idn).(*types.Var); ok && v.Pkg() != nil && v.Parent() == v.Pkg().Scope() {
							bad = posStr(w, as.Pos()) + " " + v.Name()
						}
					}
				}
				return true
			})
			add(fi.Key+".effects[no-package-state]", "effects", bad == "", posStr(w, fi.Decl.Pos()), "writes the package-level variable "+bad+": evaluations are no longer independent of each other")
		}
		out = append(out, checkMapRanges(w, lib)...)
		out = append(out, checkPackageVars(w)...)
		out = append(out, checkSortedMap(w)...)
		// what a run writes is a function of its inputs, not of what the output file held before
		out = append(out, checkOutputFileOpen(w, lib)...)
	case "C05":
		out = append(out, checkFormatTable(w)...)
		out = append(out, checkOutputFileOpen(w, lib)...)
		out = append(out, checkWrittenBytes(w)...)
		out = append(out, checkPartsDecodedAsIs(w)...)
	case "C04":
		out = append(out, checkPartsDecodedAsIs(w)...)
	case "C20":
		out = append(out, checkWrapper(w)...)
	case "C08":
		out = append(out, checkMainsStdout(w)...)
	case "C15":
		out = append(out, checkMainsStdout(w, "cmd/bkld")...)
		out = append(out, checkOutputFileOpen(w, lib, "cmd/bkld")...)
	case "C16":
		out = append(out, checkMainsStdout(w, "cmd/bkli", "cmd/bkld")...)
		out = append(out, checkOutputFileOpen(w, lib, "cmd/bkli", "cmd/bkld")...)
	case "C17":
		out = append(out, checkMainsStdout(w, "cmd/bklr")...)
		out = append(out, checkOutputFileOpen(w, lib, "cmd/bklr")...)
	case "C03":
		out = append(out, checkMainsStdout(w, "cmd/bkl")...)
	}
	return out
}

// findFunc returns the function with the given key, or nil.
func findFunc(w *World, key string) *FuncInfo { return w.Funcs[key] }

// assignmentsTo returns the right-hand sides assigned to the named local variable in fi (":=" and "=").
func assignmentsTo(fi *FuncInfo, name string) []ast.Expr {
	var out []ast.Expr
	ast.Inspect(fi.Decl.Body, func(n ast.Node) bool {
		switch as := n.(type) {
		case *ast.AssignStmt:
			for i, l := range as.Lhs {
				if idn, ok := l.(*ast.Ident); ok && idn.Name == name {
					if len(as.Rhs) == len(as.Lhs) {
						out = append(out, as.Rhs[i])
					} else if len(as.Rhs) == 1 {
						out = append(out, as.Rhs[0])
					}
				}
			}
		case *ast.ValueSpec:
			for i, nm := range as.Names {
				if nm.Name == name && i < len(as.Values) {
					out = append(out, as.Values[i])
				}
			}
		}
		return true
	})
	return out
}

func callIs(x ast.Expr, fun string, args ...string) bool {
	c, ok := x.(*ast.CallExpr)
	if !ok || exprString(c.Fun) != fun || len(c.Args) != len(args) {
		return false
	}
	for i, a := range args {
		if a != "*" && exprString(c.Args[i]) != a {
			return false
		}
	}
	return true
}

// checkLoadFile: the handle that is read is os.Stdin or p.root.Open(relPath); relPath = Rel(p.rootPath, absPath);
// absPath = Abs(path).
func checkLoadFile(w *World) []*OwnOb {
	fi := findFunc(w, ".:Parser.loadFile")
	if fi == nil {
		return []*OwnOb{{Key: ".:Parser.loadFile.effects[root-relative read]", Kind: "effects", OK: false, Why: "loadFile not found"}}
	}
	info := fi.Pkg.TypesInfo
	pos := posStr(w, fi.Decl.Pos())
	recv, pathParam := recvAndFirstParam(fi)
	var out []*OwnOb
	// the handle: what io.ReadAll is applied to (names of locals do not matter: everything goes through objects)
	var fhObj types.Object
	nRead := 0
	ast.Inspect(fi.Decl.Body, func(nd ast.Node) bool {
		if c, ok := nd.(*ast.CallExpr); ok && callName(w, c, info) == "io.ReadAll" && len(c.Args) == 1 {
			nRead++
			fhObj = identObj(c.Args[0], info)
		}
		return true
	})
	var relObj types.Object
	okFh, n := fhObj != nil, 0
	for _, r := range assignmentsToObj(fi, fhObj) {
		n++
		if exprString(r) == "os.Stdin" {
			continue
		}
		if c, ok := r.(*ast.CallExpr); ok && callName(w, c, info) == "os.Root.Open" && len(c.Args) == 1 && isFieldOf(c.Fun.(*ast.SelectorExpr).X, recv, "root", info) {
			if o := identObj(c.Args[0], info); o != nil && (relObj == nil || relObj == o) {
				relObj = o
				continue
			}
		}
		okFh = false
	}
	out = append(out, &OwnOb{Key: fi.Key + ".effects[handle is stdin or root.Open(relPath)]", Kind: "effects", OK: okFh && n >= 2 && relObj != nil, Pos: pos,
		Why: "the handle passed to io.ReadAll must only ever be os.Stdin or p.root.Open(relPath)"})
	var absObj types.Object
	okRel, nr := relObj != nil, 0
	for _, r := range assignmentsToObj(fi, relObj) {
		nr++
		c, ok := r.(*ast.CallExpr)
		if !ok || callName(w, c, info) != "filepath.Rel" || len(c.Args) != 2 || !isFieldOf(c.Args[0], recv, "rootPath", info) || identObj(c.Args[1], info) == nil {
			okRel = false
			continue
		}
		absObj = identObj(c.Args[1], info)
	}
	out = append(out, &OwnOb{Key: fi.Key + ".effects[relPath = Rel(rootPath, absPath)]", Kind: "effects", OK: okRel && nr == 1, Pos: pos,
		Why: "the path opened through the root handle must be the file's absolute path made relative to the parser's root path"})
	okAbs, na := absObj != nil, 0
	for _, r := range assignmentsToObj(fi, absObj) {
		na++
		c, ok := r.(*ast.CallExpr)
		if !ok || callName(w, c, info) != "filepath.Abs" || len(c.Args) != 1 || pathParam == nil || identObj(c.Args[0], info) != pathParam {
			okAbs = false
		}
	}
	out = append(out, &OwnOb{Key: fi.Key + ".effects[absPath = Abs(path)]", Kind: "effects", OK: okAbs && na == 1, Pos: pos, Why: "absPath must be filepath.Abs(path)"})
	out = append(out, &OwnOb{Key: fi.Key + ".effects[content read from fh]", Kind: "effects", OK: nRead == 1 && fhObj != nil, Pos: pos, Why: "the content must be read from that handle (io.ReadAll(fh)), once"})
	return out
}

// recvAndFirstParam: the objects of the receiver and of the first parameter.
func recvAndFirstParam(fi *FuncInfo) (types.Object, types.Object) {
	sig := fi.Obj.Type().(*types.Signature)
	var r, p types.Object
	if sig.Recv() != nil {
		r = sig.Recv()
	}
	if sig.Params().Len() > 0 {
		p = sig.Params().At(0)
	}
	return r, p
}

// isFieldOf: x is <obj>.<field>
func isFieldOf(x ast.Expr, obj types.Object, field string, info *types.Info) bool {
	sel, ok := x.(*ast.SelectorExpr)
	return ok && obj != nil && sel.Sel.Name == field && identObj(sel.X, info) == obj
}

// assignmentsToObj: the right-hand sides assigned to the variable (":=", "=" and var declarations), by object.
func assignmentsToObj(fi *FuncInfo, obj types.Object) []ast.Expr {
	var out []ast.Expr
	if obj == nil {
		return nil
	}
	info := fi.Pkg.TypesInfo
	ast.Inspect(fi.Decl.Body, func(n ast.Node) bool {
		switch as := n.(type) {
		case *ast.AssignStmt:
			for i, l := range as.Lhs {
				if identObj(l, info) == obj {
					if len(as.Rhs) == len(as.Lhs) {
						out = append(out, as.Rhs[i])
					} else if len(as.Rhs) == 1 {
						out = append(out, as.Rhs[0])
					}
				}
			}
		case *ast.ValueSpec:
			for i, nm := range as.Names {
				if info.ObjectOf(nm) == obj && i < len(as.Values) {
					out = append(out, as.Values[i])
				}
			}
		}
		return true
	})
	return out
}

// checkSetRoot: the new root is opened through the current one, relative to the current root path, and the two
// fields change together.
func checkSetRoot(w *World) []*OwnOb {
	fi := findFunc(w, ".:Parser.SetRoot")
	if fi == nil {
		return []*OwnOb{{Key: ".:Parser.SetRoot.effects[narrowing]", Kind: "effects", OK: false, Why: "SetRoot not found"}}
	}
	info := fi.Pkg.TypesInfo
	pos := posStr(w, fi.Decl.Pos())
	recv, pathParam := recvAndFirstParam(fi)
	// field writes on the receiver, in order
	type fw struct {
		field string
		rhs   ast.Expr
	}
	var writes []fw
	var shown []string
	ast.Inspect(fi.Decl.Body, func(nd ast.Node) bool {
		if as, ok := nd.(*ast.AssignStmt); ok && len(as.Lhs) == 1 && len(as.Rhs) == 1 {
			if sel, ok := as.Lhs[0].(*ast.SelectorExpr); ok && recv != nil && identObj(sel.X, info) == recv {
				writes = append(writes, fw{sel.Sel.Name, as.Rhs[0]})
				shown = append(shown, sel.Sel.Name+"="+exprString(as.Rhs[0]))
			}
		}
		return true
	})
	okW := len(writes) == 2 && writes[0].field == "root" && writes[1].field == "rootPath"
	var rootObj, relObj, absObj types.Object
	if okW {
		rootObj = identObj(writes[0].rhs, info)
		c, ok := writes[1].rhs.(*ast.CallExpr)
		if rootObj == nil || !ok || callName(w, c, info) != "filepath.Join" || len(c.Args) != 2 || !isFieldOf(c.Args[0], recv, "rootPath", info) || identObj(c.Args[1], info) == nil {
			okW = false
		} else {
			relObj = identObj(c.Args[1], info)
		}
	}
	ok1, n1 := rootObj != nil, 0
	for _, r := range assignmentsToObj(fi, rootObj) {
		n1++
		c, ok := r.(*ast.CallExpr)
		if !ok || callName(w, c, info) != "os.Root.OpenRoot" || len(c.Args) != 1 || !isFieldOf(c.Fun.(*ast.SelectorExpr).X, recv, "root", info) || identObj(c.Args[0], info) != relObj || relObj == nil {
			ok1 = false
		}
	}
	ok2, n2 := relObj != nil, 0
	for _, r := range assignmentsToObj(fi, relObj) {
		n2++
		c, ok := r.(*ast.CallExpr)
		if !ok || callName(w, c, info) != "filepath.Rel" || len(c.Args) != 2 || !isFieldOf(c.Args[0], recv, "rootPath", info) || identObj(c.Args[1], info) == nil {
			ok2 = false
			continue
		}
		absObj = identObj(c.Args[1], info)
	}
	ok3, n3 := absObj != nil, 0
	for _, r := range assignmentsToObj(fi, absObj) {
		n3++
		c, ok := r.(*ast.CallExpr)
		if !ok || callName(w, c, info) != "filepath.Abs" || len(c.Args) != 1 || pathParam == nil || identObj(c.Args[0], info) != pathParam {
			ok3 = false
		}
	}
	return []*OwnOb{
		{Key: fi.Key + ".effects[new root opened through the current root]", Kind: "effects", OK: ok1 && n1 == 1 && ok2 && n2 == 1 && ok3 && n3 == 1, Pos: pos,
			Why: "SetRoot must open the new root with p.root.OpenRoot(Rel(p.rootPath, Abs(path))) so that nested calls can only narrow"},
		{Key: fi.Key + ".effects[root and rootPath change together]", Kind: "effects", OK: okW, Pos: pos,
			Why: "p.root and p.rootPath must be assigned together (root, then Join(rootPath, rel)) and nowhere else: found " + strings.Join(shown, "; ")},
	}
}

// checkMainRootOrder: in cmd/bkl main, SetRoot (when -r is given) comes before the first MergeFile*/MergeFileLayers.
func checkMainRootOrder(w *World) []*OwnOb {
	fi := findFunc(w, "cmd/bkl:main")
	if fi == nil {
		return nil
	}
	info := fi.Pkg.TypesInfo
	var setPos, mergePos token.Pos
	ast.Inspect(fi.Decl.Body, func(nd ast.Node) bool {
		if c, ok := nd.(*ast.CallExpr); ok {
			switch callName(w, c, info) {
			case "Parser.SetRoot":
				if setPos == token.NoPos {
					setPos = c.Pos()
				}
			case "Parser.MergeFile", "Parser.MergeFileLayers":
				if mergePos == token.NoPos || c.Pos() < mergePos {
					mergePos = c.Pos()
				}
			}
		}
		return true
	})
	ok := setPos != token.NoPos && mergePos != token.NoPos && setPos < mergePos
	// SetRoot must not sit inside the input loop
	inLoop := false
	ast.Inspect(fi.Decl.Body, func(nd ast.Node) bool {
		switch l := nd.(type) {
		case *ast.RangeStmt:
			if setPos >= l.Pos() && setPos <= l.End() {
				inLoop = true
			}
		case *ast.ForStmt:
			if setPos >= l.Pos() && setPos <= l.End() {
				inLoop = true
			}
		}
		return true
	})
	return []*OwnOb{{Key: fi.Key + ".effects[-r applied before the first input is loaded]", Kind: "effects", OK: ok && !inLoop, Pos: posStr(w, fi.Decl.Pos()),
		Why: "p.SetRoot must be called once, before any MergeFile/MergeFileLayers call"}}
}

// checkWrapper: C20 — the wrapped program is executed only after every file argument was evaluated and written;
// every failure on that way is fatal; non-file arguments are skipped untouched.
// callName: a name for the called function that does not depend on how locals are called: "Parser.OutputToFile",
// "FileMatch" for repository functions, "os.CreateTemp", "os.File.Name", "syscall.Exec" for external ones.
func callName(w *World, c *ast.CallExpr, info *types.Info) string {
	if callee := w.calleeOfCall(c, info); callee != nil {
		return callee.Name
	}
	n := extFuncName(c, info)
	return n[strings.LastIndex(n, "/")+1:]
}

func identObj(x ast.Expr, info *types.Info) types.Object {
	for {
		p, ok := x.(*ast.ParenExpr)
		if !ok {
			break
		}
		x = p.X
	}
	if id, ok := x.(*ast.Ident); ok {
		return info.ObjectOf(id)
	}
	return nil
}

// errCheckOf: `if <v> != nil {...}` -> the object of v (nil if the condition has another shape)
func errCheckOf(ifs *ast.IfStmt, info *types.Info) types.Object {
	b, ok := ifs.Cond.(*ast.BinaryExpr)
	if !ok || b.Op != token.NEQ || exprString(b.Y) != "nil" {
		return nil
	}
	return identObj(b.X, info)
}

func checkWrapper(w *World) []*OwnOb {
	fi := findFunc(w, "wrapper:WrapOrDie")
	if fi == nil {
		return []*OwnOb{{Key: "wrapper:WrapOrDie.effects[exec after all evaluations]", Kind: "effects", OK: false, Why: "WrapOrDie not found"}}
	}
	info := fi.Pkg.TypesInfo
	pos := posStr(w, fi.Decl.Pos())
	// the loop over the arguments: the top-level range statement in which FileMatch is called
	var loop *ast.RangeStmt
	var execPos token.Pos
	nExec := 0
	for _, s := range fi.Decl.Body.List {
		if r, ok := s.(*ast.RangeStmt); ok {
			has := false
			ast.Inspect(r.Body, func(nd ast.Node) bool {
				if c, ok := nd.(*ast.CallExpr); ok && callName(w, c, info) == "FileMatch" {
					has = true
				}
				return true
			})
			if has {
				loop = r
			}
		}
	}
	ast.Inspect(fi.Decl.Body, func(nd ast.Node) bool {
		if c, ok := nd.(*ast.CallExpr); ok && callName(w, c, info) == "syscall.Exec" {
			execPos = c.Pos()
			nExec++
		}
		return true
	})
	var out []*OwnOb
	okOrder := loop != nil && nExec == 1 && execPos > loop.End()
	out = append(out, &OwnOb{Key: fi.Key + ".effects[exec after all evaluations]", Kind: "effects", OK: okOrder, Pos: pos,
		Why: "syscall.Exec must be called exactly once, after the loop over the arguments has finished"})
	if loop == nil {
		return out
	}
	argsObj := identObj(loop.X, info)
	var keyObj, valObj types.Object
	if loop.Key != nil {
		keyObj = identObj(loop.Key, info)
	}
	if loop.Value != nil {
		valObj = identObj(loop.Value, info)
	}
	// inside the loop: a failing step is fatal, except FileMatch (not a bkl file -> argument passes through)
	fatalAfter := map[string]bool{"New": false, "Parser.MergeFileLayers": false, "os.CreateTemp": false, "Parser.OutputToFile": false}
	okFM := false
	var tmpObj types.Object
	stmts := loop.Body.List
	for i, s := range stmts {
		as, ok := s.(*ast.AssignStmt)
		if !ok || len(as.Rhs) != 1 || len(as.Lhs) == 0 {
			continue
		}
		c, ok := as.Rhs[0].(*ast.CallExpr)
		if !ok {
			continue
		}
		name := callName(w, c, info)
		if name == "os.CreateTemp" {
			tmpObj = identObj(as.Lhs[0], info)
		}
		if i+1 >= len(stmts) {
			continue
		}
		errObj := identObj(as.Lhs[len(as.Lhs)-1], info)
		ifs, ok := stmts[i+1].(*ast.IfStmt)
		if !ok || errObj == nil || errCheckOf(ifs, info) != errObj || len(ifs.Body.List) != 1 {
			continue
		}
		isFatal := false
		if es, ok := ifs.Body.List[0].(*ast.ExprStmt); ok {
			if fc, ok := es.X.(*ast.CallExpr); ok && callName(w, fc, info) == "fatal" && len(fc.Args) == 1 && identObj(fc.Args[0], info) == errObj {
				isFatal = true
			}
		}
		if _, tracked := fatalAfter[name]; tracked && isFatal {
			fatalAfter[name] = true
		}
		if name == "FileMatch" && exprString0(ifs.Body.List[0]) == "continue" && len(c.Args) == 1 && valObj != nil && identObj(c.Args[0], info) == valObj {
			okFM = true
		}
	}
	var missing []string
	for k, v := range fatalAfter {
		if !v {
			missing = append(missing, k)
		}
	}
	sort.Strings(missing)
	out = append(out, &OwnOb{Key: fi.Key + ".effects[evaluation failure is fatal]", Kind: "effects", OK: len(missing) == 0, Pos: pos,
		Why: "every failing step of evaluating a file argument must end in fatal(err) before the wrapped program can run; not so for: " + strings.Join(missing, ", ")})
	out = append(out, &OwnOb{Key: fi.Key + ".effects[non-file arguments pass through]", Kind: "effects", OK: okFM, Pos: pos,
		Why: "an argument for which bkl.FileMatch(arg) fails must be skipped with continue (left as it is)"})
	// the only write to the argument vector is args[i] = tmp.Name() (the loop's own key, the file CreateTemp returned)
	nW, okW := 0, true
	ast.Inspect(fi.Decl.Body, func(nd ast.Node) bool {
		if as, ok := nd.(*ast.AssignStmt); ok {
			for i, l := range as.Lhs {
				if ix, ok := l.(*ast.IndexExpr); ok && argsObj != nil && identObj(ix.X, info) == argsObj {
					nW++
					good := false
					if keyObj != nil && identObj(ix.Index, info) == keyObj && i < len(as.Rhs) {
						if rc, ok := as.Rhs[i].(*ast.CallExpr); ok && callName(w, rc, info) == "os.File.Name" {
							if sel, ok := rc.Fun.(*ast.SelectorExpr); ok && tmpObj != nil && identObj(sel.X, info) == tmpObj {
								good = true
							}
						}
					}
					if !good {
						okW = false
					}
				}
			}
		}
		return true
	})
	out = append(out, &OwnOb{Key: fi.Key + ".effects[only the matched argument is replaced]", Kind: "effects", OK: okW && nW == 1, Pos: pos,
		Why: "the only write to the argument vector must be args[i] = tmp.Name() for the argument being processed"})
	return out
}

func exprString0(s ast.Stmt) string {
	switch x := s.(type) {
	case *ast.ExprStmt:
		return exprString(x.X)
	case *ast.BranchStmt:
		return x.Tok.String()
	}
	return ""
}

// checkMainsStdout: C08 — in each tool's main, nothing is written to stdout before the final write, and nothing that
// can fail follows it (so stdout is either complete or empty); fatal writes to stderr and exits 1.
func checkMainsStdout(w *World, dirs ...string) []*OwnOb {
	var out []*OwnOb
	if len(dirs) == 0 {
		dirs = []string{"cmd/bkl", "cmd/bkld", "cmd/bkli", "cmd/bklr"}
	}
	for _, dir := range dirs {
		fi := findFunc(w, dir+":main")
		if fi == nil {
			continue
		}
		info := fi.Pkg.TypesInfo
		pos := posStr(w, fi.Decl.Pos())
		// top-level statements of main in order; the final output statement is the last statement that writes
		writeIdx := -1
		stmts := fi.Decl.Body.List
		writesOut := func(s ast.Stmt) bool {
			found := false
			ast.Inspect(s, func(nd ast.Node) bool {
				if c, ok := nd.(*ast.CallExpr); ok {
					switch callName(w, c, info) {
					case "os.File.Write", "Parser.OutputToWriter", "Parser.OutputToFile":
						found = true
					}
				}
				return true
			})
			return found
		}
		for i, s := range stmts {
			if writesOut(s) {
				if writeIdx == -1 {
					writeIdx = i
				}
			}
		}
		// the output file is opened (and truncated) only after every input has been read: an output path that is also an
		// input must not be emptied before it is loaded (bkli -o base.yaml base.yaml next.yaml is the migrate workflow)
		{
			openIdx, lastLoad := -1, -1
			for i, st := range stmts {
				ast.Inspect(st, func(nd ast.Node) bool {
					c, ok := nd.(*ast.CallExpr)
					if !ok {
						return true
					}
					if callName(w, c, info) == "os.OpenFile" { // the tools open their output with os.OpenFile (flags checked elsewhere); bkl's os.Create is the CPU profile
						if openIdx == -1 {
							openIdx = i
						}
					}
					if callee := w.calleeOfCall(c, info); callee != nil && reachesFunc(w, callee, ".:Parser.loadFile") {
						lastLoad = i
					}
					return true
				})
			}
			okOpen := openIdx == -1 || lastLoad < openIdx
			out = append(out, &OwnOb{Key: fi.Key + ".effects[the output file is opened after the inputs were read]", Kind: "effects", OK: okOpen, Pos: pos,
				Why: "main opens its output file for writing (truncating it) before the last input has been loaded: an output path that is also an input is emptied before it is read"})
		}
		okLast := writeIdx >= 0
		// after the first output statement only the error check of that write may follow
		for i := writeIdx + 1; okLast && i < len(stmts); i++ {
			if ifs, ok := stmts[i].(*ast.IfStmt); ok && errCheckOf(ifs, info) != nil {
				continue
			}
			if writesOut(stmts[i]) {
				continue // the if/else pair OutputToWriter / OutputToFile
			}
			okLast = false
		}
		// no stdout write before it, except in a branch that ends with os.Exit(0) (version output)
		okEarly := true
		for i := 0; i < writeIdx; i++ {
			ast.Inspect(stmts[i], func(nd ast.Node) bool {
				c, ok := nd.(*ast.CallExpr)
				if !ok {
					return true
				}
				name := extFuncName(c, info)
				if effectClass[name] == "stdout" {
					// allowed only inside an if-block whose last statement is os.Exit(0) / a call to version()
					okEarly = okEarly && insideExitBranch(stmts[i], c.Pos())
				}
				return true
			})
		}
		// every path through main ends in the output statement or in a failure exit: no `return`, and os.Exit(0) only in
		// the version branch (a silent early exit would be "success" without the output)
		okPaths := true
		whyPaths := ""
		var walk func(n ast.Node) bool
		walk = func(nd ast.Node) bool {
			switch y := nd.(type) {
			case *ast.FuncLit:
				return false
			case *ast.ReturnStmt:
				okPaths = false
				whyPaths = "return at " + posStr(w, y.Pos())
			case *ast.CallExpr:
				if extFuncName(y, info) == "os.Exit" && len(y.Args) == 1 {
					if exprString(y.Args[0]) != "1" {
						inVersion := false
						for _, st := range stmts {
							if y.Pos() >= st.Pos() && y.Pos() <= st.End() && insideExitBranch(st, y.Pos()) {
								if ifs, ok := st.(*ast.IfStmt); ok && strings.Contains(exprString(ifs.Cond), "BKL_VERSION") {
									inVersion = true
								}
							}
						}
						if !inVersion {
							okPaths = false
							whyPaths = "os.Exit(" + exprString(y.Args[0]) + ") at " + posStr(w, y.Pos())
						}
					}
				}
			}
			return true
		}
		ast.Inspect(fi.Decl.Body, walk)
		out = append(out, &OwnOb{Key: fi.Key + ".effects[every path ends in the output or a failure exit]", Kind: "effects", OK: okPaths, Pos: pos,
			Why: "main must not return or exit with status 0 before the output is written (" + whyPaths + "): the run would succeed without producing its result"})
		out = append(out, &OwnOb{Key: fi.Key + ".effects[stdout is written last]", Kind: "effects", OK: okLast, Pos: pos,
			Why: "the output must be written by the last statement of main (followed only by its error check), after every evaluation succeeded"})
		out = append(out, &OwnOb{Key: fi.Key + ".effects[no early stdout]", Kind: "effects", OK: okEarly, Pos: pos,
			Why: "nothing may be printed to stdout before the final output, except in the version branch that exits immediately"})
		// fatal: stderr + exit 1
		if ff := findFunc(w, dir+":fatal"); ff != nil {
			effs := directEffects(w, ff)
			okF := len(effs) == 2 && effs[0].class == "stderr" && effs[1].class == "exit" && callIs(effs[1].call, "os.Exit", "1")
			out = append(out, &OwnOb{Key: ff.Key + ".effects[stderr then exit 1]", Kind: "effects", OK: okF, Pos: posStr(w, ff.Decl.Pos()),
				Why: "fatal must print the error to stderr and exit with status 1, nothing else"})
		}
	}
	return out
}

// reachesFunc: fi is, or (transitively) calls, the repository function with the given key.
func reachesFunc(w *World, fi *FuncInfo, key string) bool {
	seen := map[*FuncInfo]bool{}
	var dfs func(f *FuncInfo) bool
	dfs = func(f *FuncInfo) bool {
		if f.Key == key {
			return true
		}
		if seen[f] {
			return false
		}
		seen[f] = true
		for _, c := range w.callees[f] {
			if dfs(c) {
				return true
			}
		}
		return false
	}
	return dfs(fi)
}

func insideExitBranch(s ast.Stmt, p token.Pos) bool {
	ok := false
	ast.Inspect(s, func(nd ast.Node) bool {
		ifs, isIf := nd.(*ast.IfStmt)
		if !isIf || p < ifs.Body.Pos() || p > ifs.Body.End() || len(ifs.Body.List) == 0 {
			return true
		}
		last := exprString0(ifs.Body.List[len(ifs.Body.List)-1])
		if last == "os.Exit(0)" || last == "version()" {
			ok = true
		}
		return true
	})
	return ok
}

// checkMapRanges: C09 — every `range` over a built-in map (random order in Go) is either inside a function whose
// functional postcondition is proved under arbitrary iteration order (so the result does not depend on the order), or
// its body only stores one entry under a key that is an injective function of the loop key (the stores commute).
func checkMapRanges(w *World, lib []*FuncInfo) []*OwnOb {
	var out []*OwnOb
	for _, fi := range lib {
		info := fi.Pkg.TypesInfo
		// maps.Keys / maps.Values / maps.All hand out the entries in map order: fine when the result is sorted on the spot
		// (slices.Sorted(maps.Keys(m))), otherwise the function must have a functional contract, like a range
		{
			sortedArg := map[*ast.CallExpr]bool{}
			ast.Inspect(fi.Decl.Body, func(nd ast.Node) bool {
				if c, ok := nd.(*ast.CallExpr); ok {
					switch exprString(c.Fun) {
					case "slices.Sorted", "slices.SortedFunc", "slices.SortedStableFunc":
						if len(c.Args) > 0 {
							if in, ok := c.Args[0].(*ast.CallExpr); ok {
								sortedArg[in] = true
							}
						}
					}
				}
				return true
			})
			k := 0
			ast.Inspect(fi.Decl.Body, func(nd ast.Node) bool {
				c, ok := nd.(*ast.CallExpr)
				if !ok {
					return true
				}
				switch extFuncName(c, info) {
				case "maps.Keys", "maps.Values", "maps.All", "golang.org/x/exp/maps.Keys", "golang.org/x/exp/maps.Values":
				default:
					return true
				}
				if sortedArg[c] {
					return true
				}
				k++
				functional := false
				if ct := fi.Contract; ct != nil && !ct.Trusted {
					for _, en := range ct.Ensures {
						if strings.Contains(en.Src, "(= res") || strings.Contains(en.Src, "(= (isErr err)") {
							functional = true
						}
					}
				}
				why := "covered by the function's functional postcondition, which is proved for every iteration order"
				if !functional {
					why = exprString(c.Fun) + " yields the entries in map order and the result is not sorted on the spot: sort it, or give the function a functional contract"
				}
				out = append(out, &OwnOb{Key: fmt.Sprintf("%s.effects[map range #k%d is order-independent]", fi.Key, k), Kind: "effects", OK: functional, Pos: posStr(w, c.Pos()), Why: why})
				return true
			})
		}
		n := 0
		ast.Inspect(fi.Decl.Body, func(nd ast.Node) bool {
			rs, ok := nd.(*ast.RangeStmt)
			if !ok {
				return true
			}
			if _, isMap := info.TypeOf(rs.X).Underlying().(*types.Map); !isMap {
				return true
			}
			n++
			key := fmt.Sprintf("%s.effects[map range #%d is order-independent]", fi.Key, n)
			functional := false
			if c := fi.Contract; c != nil && !c.Trusted {
				for _, en := range c.Ensures {
					if strings.Contains(en.Src, "(= res") || strings.Contains(en.Src, "(= (isErr err)") {
						functional = true
					}
				}
			}
			why := "covered by the function's functional postcondition, which is proved for every iteration order"
			ok2 := functional
			if !ok2 {
				ok2 = commutingStore(rs, info)
				why = "the loop body is a single store under an injective function of the loop key (stores commute)"
			}
			if !ok2 {
				why = "range over a built-in map whose effect may depend on the iteration order: iterate sortedMap(m), or give the function a functional contract"
			}
			out = append(out, &OwnOb{Key: key, Kind: "effects", OK: ok2, Pos: posStr(w, rs.Pos()), Why: why})
			return true
		})
	}
	return out
}

// commutingStore recognises `for k, v := range m { x[k] = e }`, `x[prefix+k] = e`, `x[fmt.Sprintf("lit%s", k)] = e`
// and `x[v.Field] = v` where e does not read x.
func commutingStore(rs *ast.RangeStmt, info *types.Info) bool {
	if len(rs.Body.List) != 1 {
		return false
	}
	as, ok := rs.Body.List[0].(*ast.AssignStmt)
	if !ok || len(as.Lhs) != 1 || len(as.Rhs) != 1 || as.Tok != token.ASSIGN {
		// a nested range that only stores is fine too (allParents)
		if inner, ok := rs.Body.List[0].(*ast.RangeStmt); ok {
			return commutingStore(inner, info)
		}
		return false
	}
	ix, ok := as.Lhs[0].(*ast.IndexExpr)
	if !ok {
		return false
	}
	base := exprString(ix.X)
	if strings.Contains(exprString(as.Rhs[0]), base+"[") {
		return false
	}
	k := ""
	if id, ok := rs.Key.(*ast.Ident); ok {
		k = id.Name
	}
	idx := exprString(ix.Index)
	switch {
	case k != "" && idx == k:
		return true
	case k != "" && strings.HasPrefix(idx, "fmt.Sprintf(\"") && strings.HasSuffix(idx, "%s\", "+k+")"):
		return true
	case strings.HasSuffix(idx, ".ID"):
		return true // keyed by the document ID of the value stored (set union)
	}
	return false
}

// checkFormatTable: C05 — the format table registers exactly the documented names, the aliases share the codec of the
// name they alias (yml = yaml, jsonl = json), json-pretty decodes as json, and every format has an encoder and a decoder.
func checkFormatTable(w *World) []*OwnOb {
	lib := w.Pkgs["."]
	if lib == nil {
		return nil
	}
	type ent struct{ m, u string }
	table := map[string]ent{}
	pos := ""
	for _, f := range lib.Syntax {
		ast.Inspect(f, func(n ast.Node) bool {
			vs, ok := n.(*ast.ValueSpec)
			if !ok || len(vs.Names) != 1 || vs.Names[0].Name != "formatByExtension" || len(vs.Values) != 1 {
				return true
			}
			cl, ok := vs.Values[0].(*ast.CompositeLit)
			if !ok {
				return true
			}
			pos = posStr(w, vs.Pos())
			for _, el := range cl.Elts {
				kv, ok := el.(*ast.KeyValueExpr)
				if !ok {
					continue
				}
				name := strings.Trim(exprString(kv.Key), "\"")
				var en ent
				if inner, ok := kv.Value.(*ast.CompositeLit); ok {
					for _, fe := range inner.Elts {
						if fkv, ok := fe.(*ast.KeyValueExpr); ok {
							switch exprString(fkv.Key) {
							case "MarshalStream":
								en.m = exprString(fkv.Value)
							case "UnmarshalStream":
								en.u = exprString(fkv.Value)
							}
						}
					}
				}
				table[name] = en
			}
			return true
		})
	}
	var names []string
	for n := range table {
		names = append(names, n)
	}
	sort.Strings(names)
	want := "json json-pretty jsonl toml yaml yml"
	ob := func(key string, ok bool, why string) *OwnOb {
		return &OwnOb{Key: ".:formatByExtension.effects[" + key + "]", Kind: "effects", OK: ok, Pos: pos, Why: why}
	}
	complete := true
	for _, e := range table {
		if e.m == "" || e.u == "" {
			complete = false
		}
	}
	return []*OwnOb{
		ob("registered names", strings.Join(names, " ") == want, "the format table must register exactly: "+want+"; found: "+strings.Join(names, " ")),
		ob("yml is yaml", table["yml"] == table["yaml"] && table["yaml"].m != "", "yml must use the codec of yaml"),
		ob("jsonl is json", table["jsonl"] == table["json"] && table["json"].m != "", "jsonl must use the codec of json"),
		ob("json-pretty decodes as json", table["json-pretty"].u == table["json"].u && table["json-pretty"].m != table["json"].m && table["json-pretty"].m != "", "json-pretty must decode with the json decoder and encode with its own encoder"),
		ob("every format encodes and decodes", complete && len(table) > 0, "every registered format needs both MarshalStream and UnmarshalStream"),
		ob("codecs match their names", strings.HasPrefix(table["toml"].m, "toml") && strings.HasPrefix(table["toml"].u, "toml") && strings.HasPrefix(table["yaml"].m, "yaml") && strings.HasPrefix(table["yaml"].u, "yaml") && strings.HasPrefix(table["json"].m, "json") && strings.HasPrefix(table["json"].u, "json"), "each format must be registered with the codec functions of its own name"),
	}
}

// checkOutputFileOpen: C05 — a file that bkl writes is replaced, never patched: every os.OpenFile in the library that
// can write passes constant flags containing O_TRUNC and O_CREATE (os.Create is the same thing), and OutputToFile has
// such a site and hands that handle, and nothing else, the encoded stream (one OutputToWriter call on it, no other write).
// checkPartsDecodedAsIs: the YAML and TOML stream readers hand every part of the split text to the decoder as it is:
// the decoder's argument is []byte(<the range variable over the parts>), and that variable is not assigned in the loop
// (a trimmed or rewritten part loses the line breaks a block scalar ends in).
func checkPartsDecodedAsIs(w *World) []*OwnOb {
	var out []*OwnOb
	for _, spec := range [][2]string{{".:yamlUnmarshalStream", "yaml.v3.Unmarshal"}, {".:tomlUnmarshalStream", "Unmarshal"}} {
		fi := findFunc(w, spec[0])
		if fi == nil {
			continue
		}
		info := fi.Pkg.TypesInfo
		ok, n := true, 0
		ast.Inspect(fi.Decl.Body, func(nd ast.Node) bool {
			rs, isRange := nd.(*ast.RangeStmt)
			if !isRange || rs.Value == nil {
				return true
			}
			part := identObj(rs.Value, info)
			ast.Inspect(rs.Body, func(x ast.Node) bool {
				switch y := x.(type) {
				case *ast.AssignStmt:
					for _, l := range y.Lhs {
						if part != nil && identObj(l, info) == part {
							ok = false // the part is rewritten before (or after) it is decoded
						}
					}
				case *ast.CallExpr:
					name := extFuncName(y, info)
					if strings.HasSuffix(name, ".Unmarshal") && len(y.Args) == 2 {
						n++
						conv, isConv := y.Args[0].(*ast.CallExpr)
						if !isConv || len(conv.Args) != 1 || exprString(conv.Fun) != "[]byte" || part == nil || identObj(conv.Args[0], info) != part {
							ok = false
						}
					}
				}
				return true
			})
			return true
		})
		out = append(out, &OwnOb{Key: fi.Key + ".effects[every part is decoded as it is]", Kind: "effects", OK: ok && n == 1, Pos: posStr(w, fi.Decl.Pos()),
			Why: "the decoder must get []byte(part) for the range variable over the split text, and the part must not be rewritten in the loop: trailing line breaks are content (block scalars)"})
	}
	return out
}

// checkWrittenBytes: OutputToWriter hands its writer exactly what Output returned (the encoded stream, byte for byte):
// the argument of the single Write call is a variable whose only assignment is the result of p.Output(...). The tools'
// mains write exactly what MarshalStream returned, likewise.
func checkWrittenBytes(w *World) []*OwnOb {
	var out []*OwnOb
	one := func(key, producer string) {
		fi := findFunc(w, key)
		if fi == nil {
			return
		}
		info := fi.Pkg.TypesInfo
		nW, ok := 0, true
		ast.Inspect(fi.Decl.Body, func(nd ast.Node) bool {
			c, isCall := nd.(*ast.CallExpr)
			if !isCall {
				return true
			}
			name := callName(w, c, info)
			if !(strings.HasSuffix(name, ".Write") || strings.HasSuffix(name, ".WriteString")) || name == "bytes.Buffer.Write" || name == "bytes.Buffer.WriteString" {
				return true
			}
			nW++
			obj := types.Object(nil)
			if len(c.Args) == 1 {
				obj = identObj(c.Args[0], info)
			}
			rhs := assignmentsToObj(fi, obj)
			if obj == nil || len(rhs) != 1 {
				ok = false
				return true
			}
			pc, isC := rhs[0].(*ast.CallExpr)
			if !isC || !strings.HasSuffix(callName(w, pc, info), producer) {
				// a call through a function-valued field (f.MarshalStream) has no callee: compare the selector
				if !isC || !strings.HasSuffix(exprString(pc.Fun), "."+producer) {
					ok = false
				}
			}
			return true
		})
		out = append(out, &OwnOb{Key: fi.Key + ".effects[the bytes written are the encoded stream]", Kind: "effects", OK: ok && nW == 1, Pos: posStr(w, fi.Decl.Pos()),
			Why: fi.Name + " must write exactly what " + producer + " returned, with one Write call: no trimming, padding or re-encoding of the stream on its way out"})
	}
	one(".:Parser.OutputToWriter", "Output")
	for _, d := range []string{"cmd/bkld", "cmd/bkli", "cmd/bklr"} {
		one(d+":main", "MarshalStream")
	}
	return out
}

func checkOutputFileOpen(w *World, lib []*FuncInfo, dirs ...string) []*OwnOb {
	if len(dirs) == 0 {
		dirs = []string{"."}
	}
	inDirs := func(d string) bool {
		for _, x := range dirs {
			if x == d {
				return true
			}
		}
		return false
	}
	var out []*OwnOb
	constInt := func(info *types.Info, x ast.Expr) (int64, bool) {
		tv, ok := info.Types[x]
		if !ok || tv.Value == nil {
			return 0, false
		}
		v, exact := constant.Int64Val(constant.ToInt(tv.Value))
		return v, exact
	}
	osConst := func(fi *FuncInfo, name string) (int64, bool) {
		for _, imp := range fi.Pkg.Types.Imports() {
			if imp.Path() == "os" {
				if c, ok := imp.Scope().Lookup(name).(*types.Const); ok {
					v, exact := constant.Int64Val(constant.ToInt(c.Val()))
					return v, exact
				}
			}
		}
		return 0, false
	}
	sites := 0
	for _, fi := range lib {
		if !inDirs(fi.PkgDir) {
			continue
		}
		info := fi.Pkg.TypesInfo
		ord := 0
		ast.Inspect(fi.Decl.Body, func(n ast.Node) bool {
			c, ok := n.(*ast.CallExpr)
			if !ok {
				return true
			}
			switch extFuncName(c, info) {
			case "os.OpenFile":
				ord++
				good := false
				why := "flags are not a constant"
				if len(c.Args) == 3 {
					if fl, ok := constInt(info, c.Args[1]); ok {
						tr, ok1 := osConst(fi, "O_TRUNC")
						cr, ok2 := osConst(fi, "O_CREATE")
						wr, ok3 := osConst(fi, "O_WRONLY")
						rw, ok4 := osConst(fi, "O_RDWR")
						ap, ok5 := osConst(fi, "O_APPEND")
						if ok1 && ok2 && ok3 && ok4 && ok5 {
							writes := fl&wr != 0 || fl&rw != 0
							good = !writes || (fl&tr != 0 && fl&cr != 0 && fl&ap == 0)
							why = fmt.Sprintf("flags %#x open for writing without O_TRUNC|O_CREATE (or with O_APPEND): older content of the file would survive next to the new stream", fl)
							if fi.Name == "Parser.OutputToFile" && writes {
								sites++
							}
						}
					}
				}
				out = append(out, &OwnOb{Key: fmt.Sprintf("%s.effects[written files are replaced #%d]", fi.Key, ord), Kind: "effects", OK: good, Pos: posStr(w, c.Pos()),
					Why: fi.Name + ": os.OpenFile " + why})
			case "os.Create", "os.WriteFile":
				if fi.Name == "Parser.OutputToFile" {
					sites++
				}
			}
			return true
		})
	}
	if !inDirs(".") {
		return out
	}
	fi := findFunc(w, ".:Parser.OutputToFile")
	pos := ""
	if fi != nil {
		pos = posStr(w, fi.Decl.Pos())
	}
	out = append(out, &OwnOb{Key: ".:Parser.OutputToFile.effects[opens the output file for replacement]", Kind: "effects", OK: sites == 1, Pos: pos,
		Why: fmt.Sprintf("OutputToFile must open its target exactly once, truncating (found %d such sites)", sites)})
	// the handle receives the stream through OutputToWriter and nothing else writes to it in this function
	if fi != nil {
		other := 0
		for _, s := range directEffects(w, fi) {
			if s.class == "write-handle" {
				other++
			}
		}
		out = append(out, &OwnOb{Key: ".:Parser.OutputToFile.effects[only OutputToWriter writes to the file]", Kind: "effects", OK: other == 0, Pos: pos,
			Why: fmt.Sprintf("OutputToFile writes to a handle directly (%d sites): the file content is no longer exactly what OutputToWriter produces", other)})
	}
	return out
}

// checkSortedMap: the executor uses sortedMap(m) through its assumed contract (every key once, ascending). The function is
// a generic iterator (a returned function literal), outside the executor's subset, so its body is pinned syntactically:
// it ranges over slices.Sorted(maps.Keys(m)), yields (k, m[k]) for every key and stops only when yield says so.
func checkSortedMap(w *World) []*OwnOb {
	fi := findFunc(w, ".:sortedMap")
	if fi == nil {
		return []*OwnOb{{Key: ".:sortedMap.effects[ascending key order, every entry once]", Kind: "effects", OK: false, Why: "sortedMap not found"}}
	}
	ok := false
	why := "sortedMap must be `return func(yield) { for _, k := range slices.Sorted(maps.Keys(m)) { if !yield(k, m[k]) { return } } }`"
	m := ""
	if ps := fi.Decl.Type.Params.List; len(ps) == 1 && len(ps[0].Names) == 1 {
		m = ps[0].Names[0].Name
	}
	if len(fi.Decl.Body.List) == 1 && m != "" {
		if rs, isRet := fi.Decl.Body.List[0].(*ast.ReturnStmt); isRet && len(rs.Results) == 1 {
			if lit, isLit := rs.Results[0].(*ast.FuncLit); isLit && len(lit.Body.List) == 1 && len(lit.Type.Params.List) == 1 && len(lit.Type.Params.List[0].Names) == 1 {
				yield := lit.Type.Params.List[0].Names[0].Name
				if rg, isRange := lit.Body.List[0].(*ast.RangeStmt); isRange && rg.Value != nil && exprString(rg.X) == "slices.Sorted(maps.Keys("+m+"))" && len(rg.Body.List) == 1 {
					k := exprString(rg.Value)
					if ifs, isIf := rg.Body.List[0].(*ast.IfStmt); isIf && ifs.Init == nil && ifs.Else == nil && exprString(ifs.Cond) == "!"+yield+"("+k+", "+m+"["+k+"])" && len(ifs.Body.List) == 1 {
						if r2, isR := ifs.Body.List[0].(*ast.ReturnStmt); isR && len(r2.Results) == 0 {
							ok = true
						}
					}
				}
			}
		}
	}
	return []*OwnOb{{Key: ".:sortedMap.effects[ascending key order, every entry once]", Kind: "effects", OK: ok, Pos: posStr(w, fi.Decl.Pos()), Why: why}}
}

// checkDeepClone: deepClone is under an ASSUMED contract (an equal tree that shares no map or list with its argument),
// justified by how it is written: a serialisation round trip through yaml.Marshal / yaml.Unmarshal builds every node
// afresh. The body is pinned to exactly that shape; a hand-written copy would have to be verified instead.
func checkDeepClone(w *World) []*OwnOb {
	key := ".:deepClone.effects[copies by a YAML round trip]"
	fi := findFunc(w, ".:deepClone")
	if fi == nil {
		return []*OwnOb{{Key: key, Kind: "effects", OK: false, Why: "deepClone not found"}}
	}
	var calls []string
	ast.Inspect(fi.Decl.Body, func(n ast.Node) bool {
		if c, ok := n.(*ast.CallExpr); ok {
			calls = append(calls, exprString(c))
		}
		return true
	})
	rets := 0
	lastRet := ""
	ast.Inspect(fi.Decl.Body, func(n ast.Node) bool {
		if r, ok := n.(*ast.ReturnStmt); ok {
			rets++
			if len(r.Results) == 2 {
				lastRet = exprString(r.Results[0]) + "," + exprString(r.Results[1])
			}
		}
		return true
	})
	// names are taken from the function itself, so that renaming a parameter or a local is not an alarm
	v, yml, ret := "", "", ""
	if ps := fi.Decl.Type.Params.List; len(ps) == 1 && len(ps[0].Names) == 1 {
		v = ps[0].Names[0].Name
	}
	for _, st := range fi.Decl.Body.List {
		switch st := st.(type) {
		case *ast.AssignStmt:
			if len(st.Rhs) == 1 && len(st.Lhs) == 2 && exprString(st.Rhs[0]) == "yaml.Marshal("+v+")" {
				yml = exprString(st.Lhs[0])
			}
		case *ast.DeclStmt:
			if gd, isGen := st.Decl.(*ast.GenDecl); isGen && len(gd.Specs) == 1 {
				if vs, isVal := gd.Specs[0].(*ast.ValueSpec); isVal && len(vs.Names) == 1 && len(vs.Values) == 0 && exprString(vs.Type) == "any" {
					ret = vs.Names[0].Name
				}
			}
		}
	}
	ok := v != "" && yml != "" && ret != "" && len(calls) == 2 && calls[0] == "yaml.Marshal("+v+")" && calls[1] == "yaml.Unmarshal("+yml+", &"+ret+")" && rets == 3 && lastRet == ret+",nil"
	return []*OwnOb{{Key: key, Kind: "effects", OK: ok, Pos: posStr(w, fi.Decl.Pos()),
		Why: "deepClone must be yaml.Marshal(v) followed by yaml.Unmarshal(yml, &ret) into a fresh value and return it (found calls " + strings.Join(calls, "; ") + ")"}}
}

// checkPackageVars: C09 — the set of package-level variables is the allow-listed, read-only one. A new package-level
// variable (a cache, a memo, a shared buffer) is shared mutable state between evaluations until shown otherwise.
func checkPackageVars(w *World) []*OwnOb {
	allowed := map[string]bool{}
	prefixes := []string{}
	if b, err := os.ReadFile(filepath.Join(verifDir, "spec", "globals.allow")); err == nil {
		for _, l := range strings.Split(string(b), "\n") {
			l = strings.TrimSpace(l)
			if l == "" || strings.HasPrefix(l, "#") {
				continue
			}
			name := strings.Fields(l)[0]
			if strings.HasSuffix(name, "*") {
				prefixes = append(prefixes, strings.TrimSuffix(name, "*"))
			} else {
				allowed[name] = true
			}
		}
	}
	var out []*OwnOb
	var dirs []string
	for d := range w.Pkgs {
		dirs = append(dirs, d)
	}
	sort.Strings(dirs)
	for _, dir := range dirs {
		p := w.Pkgs[dir]
		var extra []string
		sc := p.Types.Scope()
		for _, n := range sc.Names() {
			v, ok := sc.Lookup(n).(*types.Var)
			if !ok {
				continue
			}
			if strings.HasSuffix(w.Fset.Position(v.Pos()).Filename, "_test.go") {
				continue
			}
			key := dir + ":" + n
			ok2 := allowed[key]
			for _, pf := range prefixes {
				if strings.HasPrefix(key, pf) {
					ok2 = true
				}
			}
			if !ok2 {
				extra = append(extra, n)
			}
		}
		out = append(out, &OwnOb{Key: dir + ":package.effects[package-level variables]", Kind: "effects", OK: len(extra) == 0,
			Pos: dir, Why: "package-level variables outside the read-only allow-list (spec/globals.allow): " + strings.Join(extra, ", ") + " — state shared by all evaluations in the process"})
	}
	return out
}
