package main

import (
	"fmt"
	"strings"
)

// SX is an s-expression: an atom (Atom != "" or IsStr) or a list.
type SX struct {
	Atom  string
	IsStr bool // string literal (Atom holds the unquoted content, SMT-LIB "" escaping undone)
	List  []*SX
	IsLst bool
}

func atom(s string) *SX       { return &SX{Atom: s} }
func slist(xs ...*SX) *SX     { return &SX{List: xs, IsLst: true} }
func (s *SX) isAtom(a string) bool { return s != nil && !s.IsLst && !s.IsStr && s.Atom == a }
func (s *SX) head() string {
	if s != nil && s.IsLst && len(s.List) > 0 && !s.List[0].IsLst && !s.List[0].IsStr {
		return s.List[0].Atom
	}
	return ""
}

func (s *SX) String() string {
	var b strings.Builder
	s.write(&b)
	return b.String()
}

func (s *SX) write(b *strings.Builder) {
	if s.IsStr {
		b.WriteByte('"')
		b.WriteString(strings.ReplaceAll(s.Atom, `"`, `""`))
		b.WriteByte('"')
		return
	}
	if !s.IsLst {
		b.WriteString(s.Atom)
		return
	}
	b.WriteByte('(')
	for i, x := range s.List {
		if i > 0 {
			b.WriteByte(' ')
		}
		x.write(b)
	}
	b.WriteByte(')')
}

// parseSX parses all s-expressions in src. ';' comments run to end of line.
func parseSX(src string) ([]*SX, error) {
	p := &sxParser{src: src}
	var out []*SX
	for {
		p.skip()
		if p.pos >= len(p.src) {
			return out, nil
		}
		x, err := p.parse()
		if err != nil {
			return nil, err
		}
		out = append(out, x)
	}
}

func parseOneSX(src string) (*SX, error) {
	xs, err := parseSX(src)
	if err != nil {
		return nil, err
	}
	if len(xs) != 1 {
		return nil, fmt.Errorf("expected exactly one s-expression, got %d in %q", len(xs), src)
	}
	return xs[0], nil
}

type sxParser struct {
	src string
	pos int
}

func (p *sxParser) skip() {
	for p.pos < len(p.src) {
		c := p.src[p.pos]
		if c == ';' {
			for p.pos < len(p.src) && p.src[p.pos] != '\n' {
				p.pos++
			}
		} else if c == ' ' || c == '\t' || c == '\n' || c == '\r' {
			p.pos++
		} else {
			return
		}
	}
}

func (p *sxParser) parse() (*SX, error) {
	p.skip()
	if p.pos >= len(p.src) {
		return nil, fmt.Errorf("unexpected end of input")
	}
	c := p.src[p.pos]
	switch {
	case c == '(':
		p.pos++
		l := &SX{IsLst: true}
		for {
			p.skip()
			if p.pos >= len(p.src) {
				return nil, fmt.Errorf("unbalanced '('")
			}
			if p.src[p.pos] == ')' {
				p.pos++
				return l, nil
			}
			x, err := p.parse()
			if err != nil {
				return nil, err
			}
			l.List = append(l.List, x)
		}
	case c == ')':
		return nil, fmt.Errorf("unexpected ')' at %d", p.pos)
	case c == '"':
		p.pos++
		var b strings.Builder
		for {
			if p.pos >= len(p.src) {
				return nil, fmt.Errorf("unterminated string")
			}
			if p.src[p.pos] == '"' {
				if p.pos+1 < len(p.src) && p.src[p.pos+1] == '"' {
					b.WriteByte('"')
					p.pos += 2
					continue
				}
				p.pos++
				return &SX{Atom: b.String(), IsStr: true}, nil
			}
			b.WriteByte(p.src[p.pos])
			p.pos++
		}
	case c == '|':
		st := p.pos
		p.pos++
		for p.pos < len(p.src) && p.src[p.pos] != '|' {
			p.pos++
		}
		p.pos++
		return &SX{Atom: p.src[st:p.pos]}, nil
	default:
		st := p.pos
		for p.pos < len(p.src) {
			c := p.src[p.pos]
			if c == ' ' || c == '\t' || c == '\n' || c == '\r' || c == '(' || c == ')' || c == ';' || c == '"' {
				break
			}
			p.pos++
		}
		return &SX{Atom: p.src[st:p.pos]}, nil
	}
}

// balanced reports whether the parentheses in s are balanced (ignoring string literals).
func balanced(s string) bool {
	d := 0
	in := false
	for i := 0; i < len(s); i++ {
		c := s[i]
		if in {
			if c == '"' {
				in = false
			}
			continue
		}
		switch c {
		case '"':
			in = true
		case '(':
			d++
		case ')':
			d--
		}
	}
	return d == 0 && !in
}

// smtString renders a Go string as an SMT-LIB string literal (with \u{..} escapes for non-printables).
func smtString(s string) string {
	var b strings.Builder
	b.WriteByte('"')
	for _, r := range s {
		switch {
		case r == '"':
			b.WriteString(`""`)
		case r == '\\':
			b.WriteString(`\u{5c}`)
		case r >= 0x20 && r < 0x7f:
			b.WriteRune(r)
		default:
			fmt.Fprintf(&b, `\u{%x}`, r)
		}
	}
	b.WriteByte('"')
	return b.String()
}

// substSX returns a copy of s with atoms replaced according to m.
func substSX(s *SX, m func(a string) (string, bool)) *SX {
	if s.IsStr {
		return s
	}
	if !s.IsLst {
		if r, ok := m(s.Atom); ok {
			return atom(r)
		}
		return s
	}
	n := &SX{IsLst: true, List: make([]*SX, len(s.List))}
	for i, x := range s.List {
		n.List[i] = substSX(x, m)
	}
	return n
}
