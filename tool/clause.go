package main

import (
	"fmt"
	"go/token"
	"go/types"
	"strings"
)

type clauseMode int

const (
	clauseEntry clauseMode = iota // requires, at function entry
	clausePost                    // ensures, at a return: parameter names denote entry values
	clauseInv                     // loop invariant: Go variables in scope denote current values
)

type clauseEnv struct {
	e      *Exec
	st     *State
	names  map[string]string
	mode   clauseMode
	lookup func(name string) (string, bool) // Go variable in scope -> term
	heap   map[string]string
	heap0  map[string]string
	top, top0, topPost string
}

// clause translates a contract clause into an SMT term over the current symbolic state.
func (e *Exec) clause(x *SX, st *State, names map[string]string, pos token.Pos, info *types.Info, mode clauseMode) string {
	ce := &clauseEnv{e: e, st: st, names: names, mode: mode, heap: st.heap, heap0: st.heap0, top: st.top, top0: st.top0}
	if mode == clausePost {
		// in ensures, allocTop is the boundary at entry (everything below it existed before the call)
		ce.top, ce.topPost = st.top0, st.top
	}
	ce.lookup = func(name string) (string, bool) {
		return e.lookupVar(st, name, pos)
	}
	return ce.tr(x, map[string]bool{}, false).String()
}

// lookupVar resolves a Go variable name visible at pos (or at the call sites of the inlined frames) to its term.
func (e *Exec) lookupAt(st *State, name string, p token.Pos) (string, bool) {
	for _, pkg := range e.w.Pkgs {
		sc := pkg.Types.Scope().Innermost(p)
		if sc == nil {
			continue
		}
		_, obj := sc.LookupParent(name, p)
		if v, ok := obj.(*types.Var); ok {
			if t, ok := st.env[v]; ok {
				return t, true
			}
		}
	}
	return "", false
}

func (e *Exec) lookupVar(st *State, name string, pos token.Pos) (string, bool) {
	tryAt := func(p token.Pos) (string, bool) {
		for _, pkg := range e.w.Pkgs {
			sc := pkg.Types.Scope().Innermost(p)
			if sc == nil {
				continue
			}
			_, obj := sc.LookupParent(name, p)
			if v, ok := obj.(*types.Var); ok {
				if t, ok := st.env[v]; ok {
					return t, true
				}
			}
		}
		return "", false
	}
	if t, ok := tryAt(pos); ok {
		return t, true
	}
	for _, p := range e.callSites {
		if t, ok := tryAt(p); ok {
			return t, true
		}
	}
	// last resort: a unique variable of that name in the environment
	var found string
	n := 0
	for v, t := range st.env {
		if v.Name() == name {
			found = t
			n++
		}
	}
	if n == 1 {
		return found, true
	}
	return "", false
}

func (ce *clauseEnv) tr(x *SX, bound map[string]bool, old bool) *SX {
	if x.IsStr {
		return x
	}
	if !x.IsLst {
		a := x.Atom
		if bound[a] {
			return x
		}
		if a == "allocTop" {
			if ce.top != "" {
				if old {
					return atom(ce.top0)
				}
				return atom(ce.top)
			}
			return x
		}
		if a == "allocTop@post" && ce.topPost != "" {
			return atom(ce.topPost)
		}
		if strings.HasSuffix(a, "@pre") {
			n := strings.TrimSuffix(a, "@pre")
			if t, ok := ce.st.pre[n]; ok {
				return atom(t)
			}
			panic(unsupported{"contract refers to unknown entry value " + a, token.NoPos})
		}
		if strings.HasSuffix(a, "@outer") {
			// the variable of that name in the function that wrote the call (not the inlined callee's own variable)
			n := strings.TrimSuffix(a, "@outer")
			for i := len(ce.e.callSites) - 1; i >= 0; i-- {
				if t, ok := ce.e.lookupAt(ce.st, n, ce.e.callSites[i]); ok {
					return atom(t)
				}
			}
			panic(unsupported{"contract refers to unknown outer variable " + a, token.NoPos})
		}
		if strings.HasSuffix(a, "@iter") {
			if t, ok := ce.st.ghosts[a]; ok {
				return atom(t)
			}
			panic(unsupported{"contract refers to unknown iteration-start value " + a, token.NoPos})
		}
		if strings.HasSuffix(a, "@entry") {
			if t, ok := ce.st.ghosts[a]; ok {
				return atom(t)
			}
			panic(unsupported{"contract refers to unknown closure-entry value " + a, token.NoPos})
		}
		if strings.HasSuffix(a, "@loop") {
			if t, ok := ce.st.ghosts[a]; ok {
				return atom(t)
			}
			panic(unsupported{"contract refers to unknown loop-entry value " + a, token.NoPos})
		}
		if t, ok := ce.names[a]; ok {
			return atom(t)
		}
		if t, ok := ce.st.ghosts[a]; ok {
			return atom(t)
		}
		if ce.mode == clausePost || ce.mode == clauseEntry {
			if t, ok := ce.st.pre[a]; ok {
				return atom(t)
			}
		}
		if ce.mode == clauseInv && ce.lookup != nil && isGoIdent(a) {
			if t, ok := ce.lookup(a); ok {
				return atom(t)
			}
		}
		if strings.HasPrefix(a, "Err") {
			for tag, n := range ce.e.w.SentNames {
				if n == a {
					return atom(fmt.Sprintf("(E %d)", tag))
				}
			}
		}
		// a package-level compiled regular expression of the function's own package
		if isGoIdent(a) && ce.e.fi != nil && ce.e.fi.Pkg != nil && ce.e.fi.Pkg.Types != nil {
			if v, ok := ce.e.fi.Pkg.Types.Scope().Lookup(a).(*types.Var); ok {
				if _, isRe := ce.e.w.regexpPattern(v); isRe {
					return atom(ce.e.globalVar(v))
				}
			}
		}
		return x
	}
	if len(x.List) == 0 {
		return x
	}
	h := x.head()
	switch h {
	case "old":
		if len(x.List) != 2 {
			panic(unsupported{"(old X) takes one argument", token.NoPos})
		}
		return ce.tr(x.List[1], bound, true)
	case "forall", "exists":
		nb := copyBound(bound)
		for _, b := range x.List[1].List {
			nb[b.List[0].Atom] = true
		}
		out := &SX{IsLst: true, List: []*SX{x.List[0], x.List[1]}}
		for _, y := range x.List[2:] {
			out.List = append(out.List, ce.tr(y, nb, old))
		}
		return out
	case "let":
		nb := copyBound(bound)
		binds := &SX{IsLst: true}
		for _, b := range x.List[1].List {
			binds.List = append(binds.List, slist(b.List[0], ce.tr(b.List[1], bound, old)))
		}
		for _, b := range x.List[1].List {
			nb[b.List[0].Atom] = true
		}
		return slist(x.List[0], binds, ce.tr(x.List[2], nb, old))
	case "!":
		out := &SX{IsLst: true, List: []*SX{x.List[0], ce.tr(x.List[1], bound, old)}}
		out.List = append(out.List, x.List[2:]...)
		return out
	case "_":
		return x
	case "called":
		// (called G#n): on this path the call site G#n has been executed (sites of functions that return an error)
		if len(x.List) == 2 && !x.List[1].IsLst {
			if _, ok := ce.st.callErrs["call["+x.List[1].Atom+"]"]; ok {
				return atom("true")
			}
			return atom("false")
		}
	case "codecOf":
		if len(x.List) == 2 && !x.List[1].IsLst {
			h := ce.tr(x.List[1], bound, old).String()
			if en, ok := ce.st.encs[h]; ok {
				return atom(en[1])
			}
			panic(unsupported{"(codecOf X): X is not a tracked encoder", token.NoPos})
		}
	case "content", "encoded":
		// (content buf): what has been written to the buffer variable; (encoded enc): how many Encode calls the encoder made
		if len(x.List) == 2 && !x.List[1].IsLst {
			h := ce.tr(x.List[1], bound, old).String()
			if c, ok := ce.st.bufs[h]; ok {
				if x.head() == "content" {
					return atom(c)
				}
			}
			if en, ok := ce.st.encs[h]; ok && x.head() == "encoded" {
				return atom(en[2])
			}
			panic(unsupported{"(" + x.head() + " X): X is not a tracked buffer/encoder: " + x.String(), token.NoPos})
		}
	case "heap":
		// (heap Type.Field): the field's array itself (current heap, or the entry heap under (old ...))
		if len(x.List) == 2 {
			key := x.List[1].Atom
			if ft, ok := ce.e.w.Fields[key]; ok {
				arr := ce.e.heapArr(ce.st, key, ft)
				if old {
					if a0, ok := ce.heap0[key]; ok && a0 != "" {
						arr = a0
					} else if ce.mode != clauseEntry || ce.names == nil {
						arr = ce.e.heapInit[key]
					}
				}
				return atom(arr)
			}
		}
		panic(unsupported{"(heap X): unknown field " + x.String(), token.NoPos})
	}
	if ft, ok := ce.e.w.Fields[h]; ok && len(x.List) == 2 {
		hp := ce.heap
		if old {
			hp = ce.heap0
		}
		arr, ok := hp[h]
		if !ok || arr == "" {
			arr = ce.e.heapArr(ce.st, h, ft)
			if old {
				// a field that was never touched before this point still holds its entry value
				if a0, ok := ce.heap0[h]; ok && a0 != "" {
					arr = a0
				} else if ce.mode != clauseEntry || ce.names == nil {
					arr = ce.e.heapInit[h]
				}
			}
		}
		return slist(atom("select"), atom(arr), ce.tr(x.List[1], bound, old))
	}
	out := &SX{IsLst: true, List: make([]*SX, len(x.List))}
	for i, y := range x.List {
		if i == 0 && !y.IsLst {
			out.List[i] = y
			continue
		}
		out.List[i] = ce.tr(y, bound, old)
	}
	return out
}

func copyBound(b map[string]bool) map[string]bool {
	n := make(map[string]bool, len(b)+2)
	for k, v := range b {
		n[k] = v
	}
	return n
}

func isGoIdent(a string) bool {
	if a == "" || a == "true" || a == "false" {
		return false
	}
	for i, r := range a {
		if r == '_' || r >= 'a' && r <= 'z' || r >= 'A' && r <= 'Z' || (i > 0 && r >= '0' && r <= '9') {
			continue
		}
		return false
	}
	return true
}

// calleeClause instantiates a clause of a callee contract at a call site: parameter and result names are replaced
// by the argument / result terms; field reads use the heap after the call, (old ...) the heap before it.
func (e *Exec) calleeClause(x *SX, st *State, names map[string]string, heapBefore map[string]string) string {
	ce := &clauseEnv{e: e, st: &State{pre: map[string]string{}, ghosts: map[string]string{}, heap: st.heap, heap0: heapBefore}, names: names,
		mode: clauseEntry, heap: st.heap, heap0: heapBefore, top: names["allocTop@before"], top0: names["allocTop@before"], topPost: names["allocTop@after"]}
	// heapArr may need to register new arrays in the caller's state
	ce.st = &State{pre: map[string]string{}, ghosts: map[string]string{}, heap: st.heap, heap0: heapBefore}
	return ce.tr(x, map[string]bool{}, false).String()
}
