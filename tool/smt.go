package main

import (
	"context"
	"crypto/sha256"
	"encoding/hex"
	"fmt"
	"os"
	"os/exec"
	"path/filepath"
	"strings"
	"sync"
	"time"
)

type ObResult struct {
	Ob       *Ob
	Status   string // unsat sat unknown timeout error
	Solver   string
	Seconds  float64
	Output   string
	File     string
	Bytes    int
	Axioms   []string
	Cached   bool
	Answers  map[string]string
}

func (r *ObResult) Discharged() bool {
	if r.Ob.ExpectSat {
		return r.Status != "unsat"
	}
	return r.Status == "unsat"
}

type Prover struct {
	Lib      *SpecLib
	WorkDir  string
	Timeout  time.Duration
	Par      int
	TwoAgree bool
	cacheMu  sync.Mutex
	Short    map[string]bool // obligations listed in assumed-obligations.jsonl or as recorded findings
	Claimed  map[string]bool // ledger keys: obligations outside it (never discharged on the unchanged tree) get a short timeout
}

// render builds the SMT-LIB text of an obligation.
func (p *Prover) render(ob *Ob, globals []string) (string, []string) {
	return p.renderV(ob, globals, true)
}

func (p *Prover) renderV(ob *Ob, globals []string, withLemmas bool) (string, []string) {
	var body strings.Builder
	for _, g := range globals {
		body.WriteString(g)
		body.WriteByte('\n')
	}
	for _, d := range ob.Decls {
		body.WriteString(d)
		body.WriteByte('\n')
	}
	for _, a := range ob.PC {
		body.WriteString("(assert " + a + ")\n")
	}
	if !ob.ExpectSat {
		body.WriteString("(assert (not " + ob.Goal + "))\n")
	}
	var lem strings.Builder
	for _, ln := range ob.Lemmas {
		if ob.ExpectSat || !withLemmas {
			break
		}
		if l, ok := p.Lib.Lemmas[ln]; ok {
			lem.WriteString(l.assertText() + "\n")
		}
	}
	atoms := map[string]bool{}
	if xs, err := parseSX(body.String() + lem.String()); err == nil {
		for _, x := range xs {
			collectAtoms(x, atoms)
		}
	}
	lib, axioms := p.Lib.slice(atoms)
	text := "(set-option :produce-models true)\n(set-logic ALL)\n" + lib + lem.String() + body.String() + "(check-sat)\n"
	if ob.Witness != nil {
		text += "(get-value (s))\n"
	}
	return text, axioms
}

type solverSpec struct {
	name string
	args func(file string, to time.Duration) []string
}

var solvers = []solverSpec{
	{"z3-new", func(f string, to time.Duration) []string {
		return []string{"z3-new", fmt.Sprintf("-T:%d", int(to.Seconds())+1), fmt.Sprintf("-t:%d", to.Milliseconds()), f}
	}},
	{"cvc5", func(f string, to time.Duration) []string {
		return []string{"cvc5", "--dt-nested-rec", "--strings-exp", fmt.Sprintf("--tlimit=%d", to.Milliseconds()), f}
	}},
	{"z3", func(f string, to time.Duration) []string {
		return []string{"z3", fmt.Sprintf("-T:%d", int(to.Seconds())+1), fmt.Sprintf("-t:%d", to.Milliseconds()), f}
	}},
}

func firstLine(s string) string {
	for _, l := range strings.Split(s, "\n") {
		l = strings.TrimSpace(l)
		if l != "" {
			return l
		}
	}
	return ""
}

func classify(out string) string {
	for _, l := range strings.Split(out, "\n") {
		l = strings.TrimSpace(l)
		switch l {
		case "unsat", "sat", "unknown", "timeout":
			return l
		}
		if strings.HasPrefix(l, "(error") || strings.Contains(l, "error") || strings.Contains(l, "Error") {
			return "error"
		}
		if l != "" {
			break
		}
	}
	if strings.Contains(out, "timeout") || strings.Contains(out, "interrupted") {
		return "timeout"
	}
	return "unknown"
}

// discharge runs the solvers on one obligation, racing them; the first unsat (or, for reachability checks, sat) wins.
func (p *Prover) discharge(ob *Ob, globals []string) *ObResult {
	text, axioms := p.render(ob, globals)
	timeout := p.Timeout
	if ob.ExpectSat && timeout > 2*time.Second {
		timeout = 2 * time.Second // vacuity checks are best effort: "not refuted quickly"
	}
	if p.Short[ob.Key] && timeout > 3*time.Second {
		timeout = 3 * time.Second // accepted as an assumption / recorded finding: tried briefly, its outcome decides nothing
	}
	if p.Claimed != nil && !p.Claimed[ob.Key] && ob.Kind != "nopanic" && ob.Kind != "term" && timeout > 3*time.Second {
		timeout = 3 * time.Second // not claimed: reported as unclaimed if it does not discharge quickly
	}
	sum := sha256.Sum256([]byte(text))
	h := hex.EncodeToString(sum[:8])
	file := filepath.Join(p.WorkDir, "ob", sanitizeFile(ob.Key)+"-"+h+".smt2")
	os.MkdirAll(filepath.Dir(file), 0o755)
	os.WriteFile(file, []byte(text), 0o644)
	res := &ObResult{Ob: ob, File: file, Bytes: len(text), Axioms: axioms, Answers: map[string]string{}}
	cacheFile := filepath.Join(p.WorkDir, "cache", h+fmt.Sprintf("-%d", int(p.Timeout.Seconds())))
	if os.Getenv("VERIF_NOCACHE") == "" {
		if b, err := os.ReadFile(cacheFile); err == nil {
			parts := strings.SplitN(string(b), "\n", 4)
			if len(parts) >= 3 {
				res.Status, res.Solver = parts[0], parts[1]
				fmt.Sscanf(parts[2], "%f", &res.Seconds)
				if len(parts) == 4 {
					res.Output = parts[3]
				}
				res.Cached = true
				return res
			}
		}
	}
	ctx, cancel := context.WithCancel(context.Background())
	defer cancel()
	type ans struct {
		solver, status, out string
		secs                float64
	}
	// obligations that may use lemmas are also tried without them (quantified lemmas sometimes drown an easy goal)
	files := []string{file}
	if len(ob.Lemmas) > 0 && !ob.ExpectSat {
		if t2, _ := p.renderV(ob, globals, false); t2 != text {
			f2 := strings.TrimSuffix(file, ".smt2") + "-nolemmas.smt2"
			os.WriteFile(f2, []byte(t2), 0o644)
			files = append(files, f2)
		}
	}
	nproc := len(solvers) * len(files)
	ch := make(chan ans, nproc)
	start := time.Now()
	for _, fl := range files {
	  for _, s := range solvers {
		s := s
		file := fl
		go func() {
			args := s.args(file, timeout)
			c, cc := context.WithTimeout(ctx, timeout+3*time.Second)
			defer cc()
			cmd := exec.CommandContext(c, args[0], args[1:]...)
			out, _ := cmd.CombinedOutput()
			st := classify(string(out))
			if c.Err() != nil && st != "unsat" && st != "sat" {
				st = "timeout"
			}
			nm := s.name
			if strings.HasSuffix(file, "-nolemmas.smt2") {
				nm += "(no lemmas)"
			}
			ch <- ans{nm, st, string(out), time.Since(start).Seconds()}
		}()
	  }
	}
	want := "unsat"
	other := "sat"
	if ob.ExpectSat {
		want, other = "sat", "unsat"
	}
	best := ans{status: "unknown"}
	var all []ans
	agree := 0
	for i := 0; i < nproc; i++ {
		a := <-ch
		all = append(all, a)
		res.Answers[a.solver] = a.status
		if a.status == want {
			agree++
			if best.status != want {
				best = a
			}
			if !p.TwoAgree || agree >= 2 || ob.ExpectSat {
				break
			}
		}
	}
	if best.status != want {
		// no solver produced the wanted answer: prefer a definite opposite answer (it carries a model), then timeouts
		for _, pref := range []string{other, "unknown", "timeout", "error"} {
			found := false
			for _, a := range all {
				if a.status == pref {
					best, found = a, true
					break
				}
			}
			if found {
				break
			}
		}
	}
	cancel()
	res.Status, res.Solver, res.Seconds, res.Output = best.status, best.solver, time.Since(start).Seconds(), best.out
	if len(res.Output) > 4000 {
		res.Output = res.Output[:4000]
	}
	if res.Status == "unsat" || res.Status == "sat" {
		os.MkdirAll(filepath.Dir(cacheFile), 0o755)
		os.WriteFile(cacheFile, []byte(fmt.Sprintf("%s\n%s\n%f\n%s", res.Status, res.Solver, res.Seconds, res.Output)), 0o644)
	}
	return res
}

func sanitizeFile(s string) string {
	return strings.Map(func(r rune) rune {
		if r >= 'a' && r <= 'z' || r >= 'A' && r <= 'Z' || r >= '0' && r <= '9' || r == '.' || r == '-' || r == '_' {
			return r
		}
		return '_'
	}, s)
}

// dischargeAll runs all obligations with bounded parallelism.
func (p *Prover) dischargeAll(obs []*Ob, globals map[string][]string) []*ObResult {
	out := make([]*ObResult, len(obs))
	sem := make(chan struct{}, p.Par)
	var wg sync.WaitGroup
	for i, ob := range obs {
		wg.Add(1)
		sem <- struct{}{}
		go func(i int, ob *Ob) {
			defer wg.Done()
			defer func() { <-sem }()
			out[i] = p.discharge(ob, globals[ob.Func])
		}(i, ob)
	}
	wg.Wait()
	return out
}
