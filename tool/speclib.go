package main

import (
	"fmt"
	"os"
	"path/filepath"
	"sort"
	"strings"
)

// SpecForm is one top-level form of the spec library.
type SpecForm struct {
	Kind    string // datatype sort define declare assert lemma
	Defines []string
	X       *SX
	Text    string
	Refs    map[string]bool
	File    string
	Name    string // lemma name
	Always  bool
}

type Lemma struct {
	Name   string
	Vars   *SX // ((x Sort) ...)
	Body   *SX
	Induct string
	Uses   []string
	Pattern *SX
	File   string
}

type SpecLib struct {
	Forms   []*SpecForm
	ByName  map[string]*SpecForm
	Lemmas  map[string]*Lemma
	LemmaOrder []string
	Axioms  []string
	Files   []string
}

func collectAtoms(x *SX, out map[string]bool) {
	if x.IsStr {
		return
	}
	if !x.IsLst {
		out[x.Atom] = true
		return
	}
	for _, y := range x.List {
		collectAtoms(y, out)
	}
}

func loadSpecLib(dir string) (*SpecLib, error) {
	files, _ := filepath.Glob(filepath.Join(dir, "*.smt2"))
	sort.Slice(files, func(i, j int) bool {
		rank := func(f string) int {
			// definitions must precede their uses: fixed order for the files that others build on
			switch filepath.Base(f) {
			case "prelude.smt2":
				return 0
			case "merge.smt2":
				return 1
			case "marker.smt2":
				return 2
			case "output.smt2":
				return 3
			case "plain.smt2":
				return 4
			case "encode.smt2":
				return 6
			case "interp.smt2":
				return 7
			case "axioms.smt2":
				return 8
			case "lemmas.smt2":
				return 9
			}
			return 5
		}
		if rank(files[i]) != rank(files[j]) {
			return rank(files[i]) < rank(files[j])
		}
		return files[i] < files[j]
	})
	lib := &SpecLib{ByName: map[string]*SpecForm{}, Lemmas: map[string]*Lemma{}, Files: files}
	for _, f := range files {
		b, err := os.ReadFile(f)
		if err != nil {
			return nil, err
		}
		xs, err := parseSX(string(b))
		if err != nil {
			return nil, fmt.Errorf("%s: %v", f, err)
		}
		for _, x := range xs {
			sf := &SpecForm{X: x, Text: x.String(), Refs: map[string]bool{}, File: filepath.Base(f)}
			collectAtoms(x, sf.Refs)
			switch x.head() {
			case "declare-datatypes", "declare-datatype", "define-sort", "declare-sort":
				sf.Kind = "sort"
				sf.Always = true
			case "define-fun", "define-fun-rec":
				sf.Kind = "define"
				sf.Defines = []string{x.List[1].Atom}
			case "define-funs-rec":
				sf.Kind = "define"
				for _, d := range x.List[1].List {
					sf.Defines = append(sf.Defines, d.List[0].Atom)
				}
			case "declare-fun", "declare-const":
				sf.Kind = "declare"
				sf.Defines = []string{x.List[1].Atom}
			case "assert":
				sf.Kind = "assert"
				lib.Axioms = append(lib.Axioms, sf.Text)
			case "lemma":
				// (lemma NAME ((v Sort)...) BODY [:induct v])
				lm := &Lemma{Name: x.List[1].Atom, Vars: x.List[2], Body: x.List[3], File: filepath.Base(f)}
				for i := 4; i+1 < len(x.List); i += 2 {
					if x.List[i].isAtom(":induct") {
						lm.Induct = x.List[i+1].Atom
					}
					if x.List[i].isAtom(":pattern") {
						lm.Pattern = x.List[i+1]
					}
					if x.List[i].isAtom(":uses") {
						for _, u := range x.List[i+1].List {
							lm.Uses = append(lm.Uses, u.Atom)
						}
					}
				}
				lib.Lemmas[lm.Name] = lm
				lib.LemmaOrder = append(lib.LemmaOrder, lm.Name)
				continue
			default:
				return nil, fmt.Errorf("%s: unsupported top-level form %s", f, x.head())
			}
			for _, d := range sf.Defines {
				if _, dup := lib.ByName[d]; dup {
					return nil, fmt.Errorf("%s: %s defined twice", f, d)
				}
				lib.ByName[d] = sf
			}
			lib.Forms = append(lib.Forms, sf)
		}
	}
	return lib, nil
}

// autoPattern: for a lemma of the form (= L R) whose left side is an application mentioning every bound variable, L is
// used as the trigger (rewrite-rule reading), which avoids matching loops between lemmas about app.
func (l *Lemma) autoPattern() *SX {
	b := l.Body
	if b.head() != "=" || len(b.List) != 3 || !b.List[1].IsLst {
		return nil
	}
	atoms := map[string]bool{}
	collectAtoms(b.List[1], atoms)
	for _, v := range l.Vars.List {
		if !atoms[v.List[0].Atom] {
			return nil
		}
	}
	return slist(b.List[1])
}

func (l *Lemma) assertText() string {
	if l.Pattern == nil {
		if ap := l.autoPattern(); ap != nil {
			return "(assert (forall " + l.Vars.String() + " (! " + l.Body.String() + " :pattern " + ap.String() + ")))"
		}
	}
	if l.Pattern != nil {
		return "(assert (forall " + l.Vars.String() + " (! " + l.Body.String() + " :pattern " + l.Pattern.String() + ")))"
	}
	return "(assert (forall " + l.Vars.String() + " " + l.Body.String() + "))"
}

// slice returns the part of the library needed by a query mentioning the given atoms: all sorts, the definitions and
// declarations reachable from those atoms, and every axiom that talks about an included declared symbol.
func (lib *SpecLib) slice(atoms map[string]bool) (string, []string) {
	need := map[*SpecForm]bool{}
	var visit func(a string)
	seen := map[string]bool{}
	visit = func(a string) {
		if seen[a] {
			return
		}
		seen[a] = true
		if sf, ok := lib.ByName[a]; ok && !need[sf] {
			need[sf] = true
			for r := range sf.Refs {
				visit(r)
			}
		}
	}
	for a := range atoms {
		visit(a)
	}
	var usedAxioms []string
	for changed := true; changed; {
		changed = false
		for _, sf := range lib.Forms {
			if sf.Kind != "assert" || need[sf] {
				continue
			}
			hit := false
			for r := range sf.Refs {
				if d, ok := lib.ByName[r]; ok && d.Kind == "declare" && need[d] {
					hit = true
				}
			}
			// list-length facts are tied to the defined function they talk about
			if !hit {
				for r := range sf.Refs {
					if d, ok := lib.ByName[r]; ok && d.Kind == "define" && need[d] && (r == "llen" || r == "sllen" || r == "rllen") {
						hit = true
					}
				}
			}
			if hit {
				need[sf] = true
				changed = true
				for r := range sf.Refs {
					visit(r)
				}
			}
		}
	}
	var b strings.Builder
	for _, sf := range lib.Forms {
		if sf.Always || need[sf] {
			b.WriteString(sf.Text)
			b.WriteByte('\n')
			if sf.Kind == "assert" {
				usedAxioms = append(usedAxioms, sf.Text)
			}
		}
	}
	return b.String(), usedAxioms
}

// lemmaObs generates the proof obligations of a lemma: structural induction on the :induct variable (a list sort),
// or a direct proof when there is none.
func (lib *SpecLib) lemmaObs(l *Lemma) []*Ob {
	key := "lemma:" + l.Name
	others := &SX{IsLst: true}
	var indSort string
	for _, v := range l.Vars.List {
		if v.List[0].Atom == l.Induct {
			indSort = v.List[1].Atom
			continue
		}
		others.List = append(others.List, v)
	}
	quant := func(body *SX) string {
		if len(others.List) == 0 {
			return body.String()
		}
		return "(forall " + others.String() + " " + body.String() + ")"
	}
	sub := func(to string) *SX {
		return substSX(l.Body, func(a string) (string, bool) {
			if a == l.Induct {
				return to, true
			}
			return "", false
		})
	}
	if l.Induct == "" {
		return []*Ob{{Key: key + ".direct", Func: key, Kind: "lemma", Goal: quant(l.Body), Clause: l.Body.String(), Lemmas: l.Uses, Pos: l.File}}
	}
	if indSort == "Int" {
		// induction on a natural number: base n <= 0, step n -> n+1 for n >= 0
		base := &Ob{Key: key + ".base", Func: key, Kind: "lemma", Decls: []string{"(declare-const ih!n Int)"}, PC: []string{"(<= ih!n 0)"},
			Goal: quant(sub("ih!n")), Clause: l.Body.String(), Lemmas: l.Uses, Pos: l.File}
		step := &Ob{Key: key + ".step", Func: key, Kind: "lemma", Decls: []string{"(declare-const ih!n Int)"},
			PC: []string{"(>= ih!n 0)", quant(sub("ih!n"))}, Goal: quant(sub("(+ ih!n 1)")), Clause: l.Body.String(), Lemmas: l.Uses, Pos: l.File}
		return []*Ob{base, step}
	}
	var nilc, cons, elem string
	switch indSort {
	case "Lst":
		nilc, cons, elem = "LNil", "LCons", "Val"
	case "SLst":
		nilc, cons, elem = "SNil", "SCons", "String"
	case "RLst":
		nilc, cons, elem = "RNil", "RCons", "Int"
	default:
		return []*Ob{{Key: key + ".direct", Func: key, Kind: "lemma", Goal: "false", Clause: "unsupported induction sort " + indSort, Pos: l.File}}
	}
	base := &Ob{Key: key + ".base", Func: key, Kind: "lemma", Goal: quant(sub(nilc)), Clause: l.Body.String(), Lemmas: l.Uses, Pos: l.File}
	step := &Ob{Key: key + ".step", Func: key, Kind: "lemma",
		Decls:  []string{"(declare-const ih!h " + elem + ")", "(declare-const ih!t " + indSort + ")"},
		PC:     []string{quant(sub("ih!t"))},
		Goal:   quant(sub("(" + cons + " ih!h ih!t)")),
		Clause: l.Body.String(), Lemmas: l.Uses, Pos: l.File}
	return []*Ob{base, step}
}
