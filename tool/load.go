package main

import (
	"fmt"
	"go/ast"
	"go/token"
	"go/types"
	"os"
	"path/filepath"
	"sort"
	"strings"

	"golang.org/x/tools/go/packages"
)

// FuncInfo is one top-level function or method of the repository.
type FuncInfo struct {
	Key      string // "<pkgdir>:<name>", e.g. ".:mergeMapMap", "cmd/bkld:diff", ".:Parser.MergeDocument"
	Name     string // "mergeMapMap", "Parser.MergeDocument"
	PkgDir   string
	Pkg      *packages.Package
	Decl     *ast.FuncDecl
	Obj      *types.Func
	Contract *FuncContract
	File     string
}

type World struct {
	RepoDir   string
	Fset      *token.FileSet
	Pkgs      map[string]*packages.Package // by pkgdir
	Funcs     map[string]*FuncInfo         // by Key
	ByObj     map[*types.Func]*FuncInfo
	Contracts []*FuncContract
	Sentinels map[*types.Var]int // package-level error variables -> tag
	SentNames map[int]string
	ContractSrc map[string]string // pkgdir -> path the contracts were read from
	Notes     []string
	Fields    map[string]types.Type // "Document.Data" -> field type
	modsets   map[*FuncInfo]map[string]types.Type
	callees   map[*FuncInfo][]*FuncInfo
	scc       map[*FuncInfo]int
	selfRec   map[*FuncInfo]bool
	freshObj  map[*FuncInfo]bool
	ownW      map[*FuncInfo]map[string]map[int]bool
	retSum    map[*FuncInfo]ocls
	retObj    map[*FuncInfo]psrc
	pendingPreserves []*FuncInfo
	rePats    map[*types.Var]string
	mutParams map[*FuncInfo]map[int]bool // parameters (receiver excluded) whose map/slice content the function writes in place
}

func pkgDirOf(repo string, p *packages.Package) string {
	if len(p.GoFiles) == 0 {
		return p.PkgPath
	}
	d, err := filepath.Rel(repo, filepath.Dir(p.GoFiles[0]))
	if err != nil {
		return p.PkgPath
	}
	return d
}

func funcName(fd *ast.FuncDecl) string {
	if fd.Recv == nil || len(fd.Recv.List) == 0 {
		return fd.Name.Name
	}
	t := fd.Recv.List[0].Type
	if s, ok := t.(*ast.StarExpr); ok {
		t = s.X
	}
	if ix, ok := t.(*ast.IndexExpr); ok {
		t = ix.X
	}
	if id, ok := t.(*ast.Ident); ok {
		return id.Name + "." + fd.Name.Name
	}
	return fd.Name.Name
}

func loadWorld(repo string, verifContracts string) (*World, error) {
	cfg := &packages.Config{
		Mode: packages.NeedName | packages.NeedFiles | packages.NeedSyntax | packages.NeedTypes |
			packages.NeedTypesInfo | packages.NeedImports | packages.NeedDeps | packages.NeedCompiledGoFiles,
		Dir:        repo,
		BuildFlags: []string{"-tags=verif"},
		Env:        append(os.Environ(), "GOFLAGS=-mod=mod", "GOPROXY=off"),
		Tests:      false,
	}
	pkgs, err := packages.Load(cfg, "./...")
	if err != nil {
		return nil, err
	}
	w := &World{RepoDir: repo, Pkgs: map[string]*packages.Package{}, Funcs: map[string]*FuncInfo{},
		ByObj: map[*types.Func]*FuncInfo{}, Sentinels: map[*types.Var]int{}, SentNames: map[int]string{},
		ContractSrc: map[string]string{}, Fields: map[string]types.Type{}}
	for _, p := range pkgs {
		if len(p.Errors) > 0 {
			return nil, fmt.Errorf("package %s: %v", p.PkgPath, p.Errors[0])
		}
		w.Fset = p.Fset
		dir := pkgDirOf(repo, p)
		w.Pkgs[dir] = p
		for _, f := range p.Syntax {
			fname := p.Fset.Position(f.Pos()).Filename
			if strings.HasSuffix(fname, "_test.go") {
				continue
			}
			for _, d := range f.Decls {
				fd, ok := d.(*ast.FuncDecl)
				if !ok || fd.Body == nil {
					continue
				}
				obj, _ := p.TypesInfo.Defs[fd.Name].(*types.Func)
				fi := &FuncInfo{Name: funcName(fd), PkgDir: dir, Pkg: p, Decl: fd, Obj: obj, File: fname}
				fi.Key = dir + ":" + fi.Name
				w.Funcs[fi.Key] = fi
				if obj != nil {
					w.ByObj[obj] = fi
				}
			}
		}
	}
	// error sentinels of the library: package-level vars of type error named Err*
	if lib := w.Pkgs["."]; lib != nil {
		names := []string{}
		sc := lib.Types.Scope()
		for _, n := range sc.Names() {
			if v, ok := sc.Lookup(n).(*types.Var); ok && strings.HasPrefix(n, "Err") && types.Identical(v.Type(), types.Universe.Lookup("error").Type()) {
				names = append(names, n)
			}
		}
		sort.Strings(names)
		for i, n := range names {
			v := sc.Lookup(n).(*types.Var)
			w.Sentinels[v] = i + 1
			w.SentNames[i+1] = n
		}
	}
	// contracts: <pkgdir>/contracts_verif.go in the repo, else the mirror under verifContracts
	for dir := range w.Pkgs {
		path := filepath.Join(repo, dir, "contracts_verif.go")
		if _, err := os.Stat(path); err != nil {
			alt := filepath.Join(verifContracts, dir, "contracts_verif.go")
			if _, err2 := os.Stat(alt); err2 != nil {
				continue
			}
			w.Notes = append(w.Notes, fmt.Sprintf("contracts for %s read from the mirror %s (not present in the working tree)", dir, alt))
			path = alt
		}
		if alt := filepath.Join(verifContracts, dir, "contracts_verif.go"); alt != path {
			a, e1 := os.ReadFile(path)
			b, e2 := os.ReadFile(alt)
			if e1 == nil && e2 == nil && string(a) != string(b) {
				w.Notes = append(w.Notes, fmt.Sprintf("contracts for %s: the working-tree file %s differs from the mirror %s; the working-tree file is used", dir, path, alt))
				fmt.Fprintf(os.Stderr, "bklverif: note: %s differs from the mirror under /verif/contracts (working-tree file wins)\n", path)
			}
		}
		cs, err := parseContractFile(path, dir)
		if err != nil {
			return nil, err
		}
		w.ContractSrc[dir] = path
		for _, c := range cs {
			key := dir + ":" + c.Name
			if c.Regexp {
				w.Contracts = append(w.Contracts, c)
				continue
			}
			fi := w.Funcs[key]
			if fi == nil {
				w.Notes = append(w.Notes, fmt.Sprintf("contract for %s has no function in the working tree", key))
				w.Contracts = append(w.Contracts, c)
				continue
			}
			if fi.Contract != nil {
				return nil, fmt.Errorf("%s:%d: duplicate contract for %s", c.File, c.Line, key)
			}
			if err := checkHeader(fi, c); err != nil {
				// the function's signature no longer matches its contract: the contract cannot be applied; its
				// obligations are then missing from the run and reported against the ledger
				w.Notes = append(w.Notes, err.Error())
				w.Contracts = append(w.Contracts, c)
				continue
			}
			fi.Contract = c
			w.Contracts = append(w.Contracts, c)
			w.pendingPreserves = append(w.pendingPreserves, fi)
		}
	}
	return w, nil
}

// checkHeader verifies that the contract header names the function's parameters and has one name per result.
func checkHeader(fi *FuncInfo, c *FuncContract) error {
	var params []string
	if fi.Decl.Recv != nil {
		for _, f := range fi.Decl.Recv.List {
			for _, n := range f.Names {
				params = append(params, n.Name)
			}
		}
	}
	for _, f := range fi.Decl.Type.Params.List {
		if len(f.Names) == 0 {
			params = append(params, "_")
		}
		for _, n := range f.Names {
			params = append(params, n.Name)
		}
	}
	if strings.Join(params, ",") != strings.Join(c.Params, ",") {
		return fmt.Errorf("%s:%d: contract header params (%s) differ from %s's (%s)", c.File, c.Line,
			strings.Join(c.Params, ","), fi.Name, strings.Join(params, ","))
	}
	nres := 0
	if fi.Decl.Type.Results != nil {
		for _, f := range fi.Decl.Type.Results.List {
			if len(f.Names) == 0 {
				nres++
			} else {
				nres += len(f.Names)
			}
		}
	}
	if nres != len(c.Results) {
		return fmt.Errorf("%s:%d: contract header names %d results, %s has %d", c.File, c.Line, len(c.Results), fi.Name, nres)
	}
	return nil
}
