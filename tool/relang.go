package main

import (
	"context"
	"encoding/json"
	"fmt"
	"go/types"
	"os"
	"os/exec"
	"path/filepath"
	"regexp/syntax"
	"strings"
	"time"
)

// Contracts on compiled regular expressions (`//@ regexp <var>` blocks).
//
// The expression's source is read from the working tree (var x = regexp.MustCompile(<constant>), never assigned
// again), parsed with Go's own regexp/syntax parser, and translated to an SMT-LIB regular expression. A `lines P`
// clause demands the shape (?m)^X$ and generates the obligations
//     forall s. s in L(X)  ==>  P(s)            (the expression matches nothing but the documented separator lines)
//     a in L(X) for every `accepts a`           (and it does match the separators the writers emit)
// which z3 / cvc5 decide; a refutation carries a witness string that is replayed on the real compiled expression.

func smtChar(r rune) string {
	if r > 0x2FFFF {
		r = 0x2FFFF
	}
	return fmt.Sprintf("\"\\u{%x}\"", r)
}

func reToSMT(re *syntax.Regexp) (string, error) {
	if re.Flags&syntax.FoldCase != 0 && (re.Op == syntax.OpLiteral || re.Op == syntax.OpCharClass) {
		return "", fmt.Errorf("case-insensitive matching is outside the translated subset")
	}
	sub := func(i int) (string, error) { return reToSMT(re.Sub[i]) }
	all := func(op string) (string, error) {
		if len(re.Sub) == 1 {
			return sub(0)
		}
		var parts []string
		for i := range re.Sub {
			t, err := sub(i)
			if err != nil {
				return "", err
			}
			parts = append(parts, t)
		}
		return "(" + op + " " + strings.Join(parts, " ") + ")", nil
	}
	switch re.Op {
	case syntax.OpEmptyMatch:
		return "(str.to_re \"\")", nil
	case syntax.OpNoMatch:
		return "re.none", nil
	case syntax.OpLiteral:
		var b strings.Builder
		for _, r := range re.Rune {
			b.WriteString(fmt.Sprintf("\\u{%x}", r))
		}
		return "(str.to_re \"" + b.String() + "\")", nil
	case syntax.OpCharClass:
		var parts []string
		for i := 0; i+1 < len(re.Rune); i += 2 {
			lo, hi := re.Rune[i], re.Rune[i+1]
			if lo > 0x2FFFF {
				continue
			}
			parts = append(parts, "(re.range "+smtChar(lo)+" "+smtChar(hi)+")")
		}
		switch len(parts) {
		case 0:
			return "re.none", nil
		case 1:
			return parts[0], nil
		}
		return "(re.union " + strings.Join(parts, " ") + ")", nil
	case syntax.OpAnyCharNotNL:
		return "(re.diff re.allchar (str.to_re \"\\u{a}\"))", nil
	case syntax.OpAnyChar:
		return "re.allchar", nil
	case syntax.OpCapture:
		return sub(0)
	case syntax.OpStar:
		t, err := sub(0)
		return "(re.* " + t + ")", err
	case syntax.OpPlus:
		t, err := sub(0)
		return "(re.+ " + t + ")", err
	case syntax.OpQuest:
		t, err := sub(0)
		return "(re.opt " + t + ")", err
	case syntax.OpRepeat:
		t, err := sub(0)
		if err != nil {
			return "", err
		}
		if re.Max < 0 {
			return fmt.Sprintf("(re.++ ((_ re.^ %d) %s) (re.* %s))", re.Min, t, t), nil
		}
		return fmt.Sprintf("((_ re.loop %d %d) %s)", re.Min, re.Max, t), nil
	case syntax.OpConcat:
		return all("re.++")
	case syntax.OpAlternate:
		return all("re.union")
	}
	return "", fmt.Errorf("operator %v is outside the translated subset (anchors and word boundaries inside the body)", re.Op)
}

// lineBody parses (?m)^X$ and returns the SMT-LIB regular expression of X.
func lineBody(pattern string) (string, error) {
	re, err := syntax.Parse(pattern, syntax.Perl)
	if err != nil {
		return "", err
	}
	if re.Op != syntax.OpConcat || len(re.Sub) < 2 || re.Sub[0].Op != syntax.OpBeginLine || re.Sub[len(re.Sub)-1].Op != syntax.OpEndLine {
		return "", fmt.Errorf("the expression is not of the form (?m)^X$ (whole lines)")
	}
	body := &syntax.Regexp{Op: syntax.OpConcat, Sub: re.Sub[1 : len(re.Sub)-1]}
	if len(body.Sub) == 0 {
		body = &syntax.Regexp{Op: syntax.OpEmptyMatch}
	}
	return reToSMT(body)
}

type regexCheck struct {
	Var     string
	Pattern string
	Key     string
}

// regexObs generates the obligations of the `regexp` contracts that carry the property.
func regexObs(w *World, id string) ([]*Ob, []string) {
	var obs []*Ob
	var notes []string
	for _, c := range w.Contracts {
		if !c.Regexp || !contains(c.Props, id) {
			continue
		}
		name := strings.TrimPrefix(c.Name, "regexp:")
		key := c.Pkg + ":" + c.Name
		pkg := w.Pkgs[c.Pkg]
		fail := func(sub, why string) {
			obs = append(obs, &Ob{Key: key + "." + sub, Func: key, Kind: "relang", Tags: []string{id}, Goal: "false", Pos: fmt.Sprintf("%s:%d", c.File, c.Line), Clause: why})
		}
		if pkg == nil {
			continue
		}
		v, _ := pkg.Types.Scope().Lookup(name).(*types.Var)
		if v == nil {
			fail("source", "no package-level variable "+name)
			continue
		}
		pat, ok := w.regexpPattern(v)
		if !ok {
			fail("source", name+" is not a `var = regexp.MustCompile(<constant>)` that is never assigned again: its language is unknown")
			continue
		}
		pos := w.Fset.Position(v.Pos())
		where := fmt.Sprintf("%s:%d", strings.TrimPrefix(pos.Filename, w.RepoDir+"/"), pos.Line)
		if c.LinesPred != "" {
			body, err := lineBody(pat)
			if err != nil {
				fail("lines", fmt.Sprintf("%s = %q: %v", name, pat, err))
				continue
			}
			notes = append(notes, fmt.Sprintf("regexp %s = %q translated to the SMT-LIB expression %s (Go regexp/syntax parser; translation trusted)", name, pat, body))
			obs = append(obs, &Ob{Key: key + ".lines[only " + c.LinesPred + "]", Func: key, Kind: "relang", Tags: []string{id},
				Decls: []string{"(declare-const s String)"}, PC: []string{"(str.in_re s " + body + ")"}, Goal: "(" + c.LinesPred + " s)",
				Pos: where, Clause: fmt.Sprintf("every line matched by %s = %q satisfies %s", name, pat, c.LinesPred),
				Witness: &regexWitness{Var: name, Pkg: c.Pkg, Pattern: pat}})
			for _, a := range c.AcceptLines {
				obs = append(obs, &Ob{Key: key + ".lines[accepts " + a + "]", Func: key, Kind: "relang", Tags: []string{id},
					Goal: "(str.in_re " + smtString(a) + " " + body + ")", Pos: where, Clause: fmt.Sprintf("%s = %q matches the line %q", name, pat, a)})
			}
		}
	}
	return obs, notes
}

// regexWitness: how a refutation of a `lines` obligation is replayed: the witness line, between two other lines, is
// split by the real compiled expression.
type regexWitness struct {
	Var, Pkg, Pattern string
}

// smtUnquote decodes an SMT-LIB string literal body (without the surrounding quotes).
func smtUnquote(s string) string {
	var b strings.Builder
	for i := 0; i < len(s); i++ {
		if s[i] == '"' && i+1 < len(s) && s[i+1] == '"' {
			b.WriteByte('"')
			i++
			continue
		}
		if s[i] == '\\' && i+1 < len(s) && s[i+1] == 'u' {
			j := i + 2
			hex := ""
			if j < len(s) && s[j] == '{' {
				k := strings.IndexByte(s[j:], '}')
				if k > 0 {
					hex = s[j+1 : j+k]
					j = j + k + 1
				}
			} else if j+4 <= len(s) {
				hex = s[j : j+4]
				j += 4
			}
			if hex != "" {
				var r rune
				if _, err := fmt.Sscanf(hex, "%x", &r); err == nil {
					b.WriteRune(r)
					i = j - 1
					continue
				}
			}
		}
		if s[i] == '\\' && i+1 < len(s) && s[i+1] == 'x' && i+4 <= len(s) {
			var r rune
			if _, err := fmt.Sscanf(s[i+2:i+4], "%x", &r); err == nil {
				b.WriteRune(r)
				i += 3
				continue
			}
		}
		b.WriteByte(s[i])
	}
	return b.String()
}

// replayRegexWitness runs the solver's witness line through the real compiled expression (in-package test injected
// with -overlay; nothing is written to the repository).
func replayRegexWitness(w *World, wt *regexWitness, solverOut string) map[string]any {
	i := strings.Index(solverOut, "((s \"")
	if i < 0 {
		return nil
	}
	rest := solverOut[i+5:]
	// the literal ends at a quote that is not doubled
	end := -1
	for j := 0; j < len(rest); j++ {
		if rest[j] == '"' {
			if j+1 < len(rest) && rest[j+1] == '"' {
				j++
				continue
			}
			end = j
			break
		}
	}
	if end < 0 {
		return nil
	}
	line := smtUnquote(rest[:end])
	pkg := w.Pkgs[wt.Pkg]
	if pkg == nil {
		return nil
	}
	src := fmt.Sprintf(`package %s

import "testing"

func TestVerifReplayRegexp(t *testing.T) {
	line := %q
	parts := %s.Split("a\n"+line+"\nb", -1)
	if len(parts) != 1 {
		t.Fatalf("REPRODUCED: the line %%q is taken for a document separator: %%d parts %%q", line, len(parts), parts)
	}
}
`, pkg.Types.Name(), line, wt.Var)
	out, ran := runOverlayTest(w.RepoDir, wt.Pkg, "zz_verif_replay_test.go", src, "TestVerifReplayRegexp")
	return map[string]any{"witness_line": line, "expression": wt.Pattern, "test": src, "ran": ran, "reproduced": ran && strings.Contains(out, "REPRODUCED"), "output": out}
}

// runOverlayTest compiles and runs one in-package test against the working tree without writing into it.
func runOverlayTest(repo, pkgDir, fileName, src, testName string) (string, bool) {
	scratch, err := os.MkdirTemp("", "bklverif-replay-")
	if err != nil {
		return err.Error(), false
	}
	defer os.RemoveAll(scratch)
	tf := filepath.Join(scratch, fileName)
	if err := os.WriteFile(tf, []byte(src), 0o644); err != nil {
		return err.Error(), false
	}
	ov, _ := json.Marshal(map[string]any{"Replace": map[string]string{filepath.Join(repo, pkgDir, fileName): tf}})
	ovf := filepath.Join(scratch, "overlay.json")
	os.WriteFile(ovf, ov, 0o644)
	ctx, cancel := context.WithTimeout(context.Background(), 120*time.Second)
	defer cancel()
	cmd := exec.CommandContext(ctx, "go", "test", "-overlay", ovf, "-vet=off", "-count=1", "-timeout", "60s", "-run", "^"+testName+"$", "./"+pkgDir)
	cmd.Dir = repo
	cmd.Env = append(os.Environ(), "GOFLAGS=-mod=mod", "GOPROXY=off")
	out, _ := cmd.CombinedOutput()
	s := string(out)
	ran := strings.Contains(s, "ok  \t") || strings.Contains(s, "--- FAIL") || strings.Contains(s, "FAIL\t")
	if len(s) > 3000 {
		s = s[:3000]
	}
	return s, ran
}
