package main

import (
	"fmt"
	"go/ast"
	"go/constant"
	"go/types"
	"strings"
)

// extName returns "pkgpath.Func" or "pkgpath.Type.Method" for a call to a function outside the repository.
func qualifiedFuncName(fn *types.Func) string {
	pkg := ""
	if fn.Pkg() != nil {
		pkg = fn.Pkg().Path()
	}
	sig := fn.Type().(*types.Signature)
	if r := sig.Recv(); r != nil {
		t := r.Type()
		if p, ok := t.(*types.Pointer); ok {
			t = p.Elem()
		}
		if n, ok := t.(*types.Named); ok {
			return pkg + "." + n.Obj().Name() + "." + fn.Name()
		}
		return pkg + ".?." + fn.Name()
	}
	return pkg + "." + fn.Name()
}

func (e *Exec) extName(call *ast.CallExpr, ctx *Ctx) (string, *types.Func) {
	info := e.info(ctx)
	var id *ast.Ident
	switch f := call.Fun.(type) {
	case *ast.Ident:
		id = f
	case *ast.SelectorExpr:
		id = f.Sel
	case *ast.IndexExpr:
		switch g := f.X.(type) {
		case *ast.Ident:
			id = g
		case *ast.SelectorExpr:
			id = g.Sel
		}
	}
	if id == nil {
		return "", nil
	}
	fn, ok := info.Uses[id].(*types.Func)
	if !ok {
		return "", nil
	}
	pkg := ""
	if fn.Pkg() != nil {
		pkg = fn.Pkg().Path()
	}
	sig := fn.Type().(*types.Signature)
	if r := sig.Recv(); r != nil {
		t := r.Type()
		if p, ok := t.(*types.Pointer); ok {
			t = p.Elem()
		}
		if n, ok := t.(*types.Named); ok {
			return pkg + "." + n.Obj().Name() + "." + fn.Name(), fn
		}
		return pkg + ".?." + fn.Name(), fn
	}
	return pkg + "." + fn.Name(), fn
}

func (e *Exec) havocResults(call *ast.CallExpr, st *State, ctx *Ctx, hint string) []string {
	t := e.typeOf(call, ctx)
	var ts []types.Type
	switch tt := t.(type) {
	case *types.Tuple:
		for i := 0; i < tt.Len(); i++ {
			ts = append(ts, tt.At(i).Type())
		}
	case nil:
	default:
		if b, ok := t.(*types.Basic); !ok || b.Kind() != types.Invalid {
			ts = append(ts, t)
		}
	}
	var out []string
	for _, rt := range ts {
		if tt, ok := rt.(*types.Tuple); ok && tt.Len() == 0 {
			continue
		}
		r := e.fresh(st, hint, sortOf(rt))
		if inv := typeInv(r, rt); inv != "" {
			st.assume(inv)
		}
		out = append(out, r)
	}
	return out
}

// havocAddressed forgets the value of every local whose address is passed to an external function.
func (e *Exec) havocAddressed(call *ast.CallExpr, st *State, ctx *Ctx) {
	for _, a := range call.Args {
		// a pointer to one of the repository's structs handed to library code (flags.NewParser(opts, ...)): the library may
		// fill the struct in (by reflection, now or later): every field of that object becomes unknown
		if t := e.typeOf(a, ctx); t != nil && isPtrToStruct(t) {
			if named, ok := t.Underlying().(*types.Pointer).Elem().(*types.Named); ok && named.Obj().Pkg() != nil {
				if _, mine := e.w.Fields[named.Obj().Name()+"."+firstFieldName(named)]; mine && !strings.HasPrefix(named.Obj().Pkg().Path(), "gopkg.in/") {
					if _, isUnary := a.(*ast.UnaryExpr); !isUnary {
						ptr := e.eval(a, st, ctx)
						stt := named.Underlying().(*types.Struct)
						for i := 0; i < stt.NumFields(); i++ {
							key := named.Obj().Name() + "." + stt.Field(i).Name()
							ft := stt.Field(i).Type()
							arr := e.heapArr(st, key, ft)
							fv := e.fresh(st, "filled_"+stt.Field(i).Name(), sortOf(ft))
							if inv := typeInv(fv, ft); inv != "" {
								st.assume(inv)
							}
							st.heap[key] = "(store " + arr + " " + ptr + " " + fv + ")"
						}
						e.note("a struct handed to library code by pointer (command-line options) has unknown field values afterwards")
					}
				}
			}
		}
		u, ok := a.(*ast.UnaryExpr)
		if !ok || u.Op.String() != "&" {
			continue
		}
		id, ok := u.X.(*ast.Ident)
		if !ok {
			continue
		}
		if v, ok := e.info(ctx).ObjectOf(id).(*types.Var); ok {
			t := e.fresh(st, v.Name(), sortOf(v.Type()))
			if inv := typeInv(t, v.Type()); inv != "" {
				st.assume(inv)
			}
			st.env[v] = t
		}
	}
}

func firstFieldName(n *types.Named) string {
	if st, ok := n.Underlying().(*types.Struct); ok && st.NumFields() > 0 {
		return st.Field(0).Name()
	}
	return ""
}

func (e *Exec) evalArgs(call *ast.CallExpr, st *State, ctx *Ctx) []string {
	var out []string
	for _, a := range call.Args {
		if u, ok := a.(*ast.UnaryExpr); ok && u.Op.String() == "&" {
			if _, isID := u.X.(*ast.Ident); isID {
				out = append(out, "0")
				continue
			}
		}
		if _, isLit := a.(*ast.FuncLit); isLit {
			out = append(out, "0")
			continue
		}
		out = append(out, e.eval(a, st, ctx))
	}
	return out
}

// libraryModels: library calls whose effect depends on a callback are executed through a Go model kept in the
// repository under the verif build tag (models_verif.go); the model is inlined like filterList / filterMap.
var libraryModels = map[string]string{
	"regexp.Regexp.ReplaceAllStringFunc": "verifReplaceAllStringFunc",
}

func (e *Exec) modelCallee(call *ast.CallExpr, info *types.Info) *FuncInfo {
	sel, ok := call.Fun.(*ast.SelectorExpr)
	if !ok {
		return nil
	}
	fn, ok := info.Uses[sel.Sel].(*types.Func)
	if !ok || fn.Pkg() == nil {
		return nil
	}
	m, ok := libraryModels[qualifiedFuncName(fn)]
	if !ok {
		return nil
	}
	for _, fi := range e.w.Funcs {
		if fi.Name == m && fi.Pkg.Types == e.fi.Pkg.Types {
			return fi
		}
	}
	return nil
}

// modelFor returns the model of a library call, the terms of the model parameters that do not come from the call's
// arguments, and the mapping from the model's results to the call's results.
func (e *Exec) modelFor(call *ast.CallExpr, st *State, ctx *Ctx) (*FuncInfo, map[int]string, func(*State, []string) []string) {
	model := e.modelCallee(call, e.info(ctx))
	if model == nil {
		return nil, nil, nil
	}
	switch model.Name {
	case "verifReplaceAllStringFunc":
		// re.ReplaceAllStringFunc(src, repl): repl is applied to the matches of re in src, leftmost first; the result
		// is src with the i-th match replaced by the i-th result (reMatches / reSubst: assumed contract of regexp)
		re := e.eval(call.Fun.(*ast.SelectorExpr).X, st, ctx)
		src := e.eval(call.Args[0], st, ctx)
		e.note("regexp.ReplaceAllStringFunc(src, f) = reSubst(pattern, src, [f(m) for m in reMatches(pattern, src)]), f called once per match in order (assumed contract of regexp; model: models_verif.go)")
		pat := "(rePat " + re + ")"
		return model, map[int]string{0: "(Slice (reMatches " + pat + " " + src + "))"}, func(_ *State, vals []string) []string {
			return []string{"(reSubst " + pat + " " + src + " (sitems " + vals[0] + "))"}
		}
	}
	return nil, nil, nil
}

func (e *Exec) evalExternal(call *ast.CallExpr, st *State, ctx *Ctx) []string {
	info := e.info(ctx)
	name, fn := e.extName(call, ctx)
	if fn == nil {
		// call through a function-typed field or variable (Format.MarshalStream / UnmarshalStream)
		if sel, ok := call.Fun.(*ast.SelectorExpr); ok {
			if s, ok := info.Selections[sel]; ok && s.Kind() == types.FieldVal {
				recv := e.eval(sel.X, st, ctx)
				args := e.evalArgs(call, st, ctx)
				switch sel.Sel.Name {
				case "MarshalStream":
					e.note("Format.MarshalStream is an uninterpreted deterministic function of (format, documents) (assumed: codec determinism)")
					return []string{"(marshalS " + recv + " " + args[0] + ")", "(marshalE " + recv + " " + args[0] + ")"}
				case "UnmarshalStream":
					e.note("Format.UnmarshalStream is an uninterpreted deterministic function of (format, bytes) (assumed: codec determinism)")
					return []string{"(VList (unmarshalV " + recv + " " + args[0] + "))", "(unmarshalE " + recv + " " + args[0] + ")"}
				}
			}
		}
		e.evalArgs(call, st, ctx)
		e.note("call through a function value " + exprString(call.Fun) + ": results unconstrained")
		return e.havocResults(call, st, ctx, "fnval")
	}
	arg := func(i int) string { return e.eval(call.Args[i], st, ctx) }
	switch name {
	case "strings.HasPrefix":
		return []string{"(str.prefixof " + arg(1) + " " + arg(0) + ")"}
	case "strings.HasSuffix":
		return []string{"(str.suffixof " + arg(1) + " " + arg(0) + ")"}
	case "strings.Contains":
		return []string{"(str.contains " + arg(0) + " " + arg(1) + ")"}
	case "strings.TrimPrefix":
		s, p := arg(0), arg(1)
		return []string{"(trimPrefix " + s + " " + p + ")"}
	case "strings.TrimSuffix":
		s, p := arg(0), arg(1)
		return []string{"(trimSuffix " + s + " " + p + ")"}
	case "strings.Trim":
		return []string{"(strTrim " + arg(0) + " " + arg(1) + ")"}
	case "strings.TrimRight":
		return []string{"(strTrimRight " + arg(0) + " " + arg(1) + ")"}
	case "strings.TrimLeft":
		return []string{"(strTrimLeft " + arg(0) + " " + arg(1) + ")"}
	case "strings.ReplaceAll":
		return []string{"(str.replace_all " + arg(0) + " " + arg(1) + " " + arg(2) + ")"}
	case "strings.Split":
		return []string{"(Slice (strSplit " + arg(0) + " " + arg(1) + "))"}
	case "strings.SplitN":
		return []string{"(Slice (strSplitN " + arg(0) + " " + arg(1) + " " + arg(2) + "))"}
	case "strings.Cut":
		// before, after, found: split at the first occurrence of the separator (the definition strings.SplitN(s, sep, 2) has
		// in the spec library: AX strSplitN2)
		s0, sep := arg(0), arg(1)
		i := "(str.indexof " + s0 + " " + sep + " 0)"
		found := "(>= " + i + " 0)"
		return []string{"(ite " + found + " (str.substr " + s0 + " 0 " + i + ") " + s0 + ")",
			"(ite " + found + " (str.substr " + s0 + " (+ " + i + " (str.len " + sep + ")) (- (str.len " + s0 + ") (+ " + i + " (str.len " + sep + ")))) \"\")", found}
	case "strings.Join":
		return []string{"(strJoin (sitems " + arg(0) + ") " + arg(1) + ")"}
	case "strings.Count":
		return []string{"(strCount " + arg(0) + " " + arg(1) + ")"}
	case "maps.Copy", "golang.org/x/exp/maps.Copy":
		// maps.Copy(dst, src): every entry of src is stored in dst (the loop it abbreviates; a nil dst with a non-empty src panics)
		if len(call.Args) == 2 && isTreeMap(e.typeOf(call.Args[0], ctx)) && isTreeMap(e.typeOf(call.Args[1], ctx)) {
			d := e.eval(call.Args[0], st, ctx)
			s0 := e.eval(call.Args[1], st, ctx)
			e.nopanic(st, call.Pos(), "nil-map-write", "(or ((_ is VMap) "+d+") (forall ((j String)) (= (select (mapOf "+s0+") j) VAbsent)))", exprString(call))
			r := e.fresh(st, "copied", "Val")
			st.assume("(and ((_ is VMap) " + r + ") (forall ((j String)) (! (= (select (mc " + r + ") j) (ite (= (select (mapOf " + s0 + ") j) VAbsent) (select (mapOf " + d + ") j) (select (mapOf " + s0 + ") j))) :pattern ((select (mc " + r + ") j)))))")
			e.assignTo(call.Args[0], r, st, ctx)
			return nil
		}
	case "maps.Clone", "slices.Clone", "golang.org/x/exp/slices.Clone", "golang.org/x/exp/maps.Clone":
		e.note(name + " returns an equal container (shallow copy); sharing is tracked by the ownership pass")
		return []string{arg(0)}
	case "reflect.DeepEqual":
		e.note("reflect.DeepEqual is structural equality of the tree model (assumed)")
		a := e.evalTo(call.Args[0], types.NewInterfaceType(nil, nil), st, ctx)
		b := e.evalTo(call.Args[1], types.NewInterfaceType(nil, nil), st, ctx)
		return []string{"(= " + a + " " + b + ")"}
	case "errors.Is":
		return []string{"(= " + arg(0) + " " + arg(1) + ")"}
	case "errors.Join":
		a, b := arg(0), arg(1)
		return []string{"(ite ((_ is E) " + a + ") " + a + " " + b + ")"}
	case "fmt.Errorf":
		return []string{e.errorfTerm(call, st, ctx)}
	case "fmt.Sprintf":
		return []string{e.sprintfTerm(call, st, ctx)}
	case "golang.org/x/exp/utf8string.NewString":
		e.note("utf8string/unicode: strings are sequences of runes in the model (valid UTF-8 assumed)")
		return []string{arg(0)}
	case "golang.org/x/exp/utf8string.String.RuneCount":
		return []string{"(str.len " + e.eval(call.Fun.(*ast.SelectorExpr).X, st, ctx) + ")"}
	case "golang.org/x/exp/utf8string.String.At":
		s := e.eval(call.Fun.(*ast.SelectorExpr).X, st, ctx)
		i := arg(0)
		e.nopanic(st, call.Pos(), "index", "(and (<= 0 "+i+") (< "+i+" (str.len "+s+")))", exprString(call))
		return []string{"(str.to_code (str.at " + s + " " + i + "))"}
	case "unicode.IsLower":
		return []string{"(isLowerRune " + arg(0) + ")"}
	case "gopkg.in/yaml.v3.Unmarshal":
		// yaml.Unmarshal(bytes, &x) with x of type any: an uninterpreted deterministic parse (assumed contract)
		if len(call.Args) == 2 {
			if u, ok := call.Args[1].(*ast.UnaryExpr); ok && u.Op.String() == "&" {
				if id, ok := u.X.(*ast.Ident); ok {
					if v, ok := info.ObjectOf(id).(*types.Var); ok && isAny(v.Type()) {
						src := arg(0)
						e.note("yaml.Unmarshal into an `any` is an uninterpreted deterministic function of the text (yamlParseF / yamlParseE)")
						st.env[v] = "(yamlParseF " + src + ")"
						return []string{"(yamlParseE " + src + ")"}
					}
				}
			}
		}
	case "github.com/pelletier/go-toml/v2.Unmarshal":
		if len(call.Args) == 2 {
			if u, ok := call.Args[1].(*ast.UnaryExpr); ok && u.Op.String() == "&" {
				if id, ok := u.X.(*ast.Ident); ok {
					if v, ok := info.ObjectOf(id).(*types.Var); ok && isAny(v.Type()) {
						src := arg(0)
						e.note("toml.Unmarshal into an `any` is an uninterpreted deterministic function of the text (tomlParseF / tomlParseE)")
						st.env[v] = "(tomlParseF " + src + ")"
						return []string{"(tomlParseE " + src + ")"}
					}
				}
			}
		}
	case "regexp.Regexp.Split":
		e.note("regexp.Split(s, n) is the uninterpreted function reSplit of (pattern, s, n) (assumed contract of regexp); the pattern's language is pinned by the `regexp` contracts")
		re := e.eval(call.Fun.(*ast.SelectorExpr).X, st, ctx)
		return []string{"(Slice (reSplit (rePat " + re + ") " + arg(0) + " " + arg(1) + "))"}
	case "encoding/base64.Encoding.EncodeToString":
		e.note("base64.StdEncoding.EncodeToString is the uninterpreted function b64 (assumed to be standard base64)")
		return []string{"(b64 " + arg(0) + ")"}
	case "crypto/sha256.New":
		h := e.fresh(st, "hasher", "Int")
		if e.hashOf == nil {
			e.hashOf = map[string]string{}
		}
		e.hashOf[h] = `""`
		e.note("crypto/sha256 + encoding/hex are the uninterpreted functions sha256raw / hexenc applied to everything written to the hasher (assumed)")
		return []string{h}
	case "encoding/hex.EncodeToString":
		return []string{"(hexenc " + arg(0) + ")"}
	case "path/filepath.Dir":
		return []string{"(pathDir " + arg(0) + ")"}
	case "path/filepath.Base":
		return []string{"(pathBase " + arg(0) + ")"}
	case "path/filepath.Join":
		if len(call.Args) == 2 {
			return []string{"(pathJoin " + arg(0) + " " + arg(1) + ")"}
		}
	case "gopkg.in/yaml.v3.Node.ShortTag":
		e.note("yaml.Node.ShortTag() is the uninterpreted function yamlShortTag of the node (resolved tag; external library)")
		return []string{"(yamlShortTag " + e.eval(call.Fun.(*ast.SelectorExpr).X, st, ctx) + ")"}
	case "strconv.ParseBool":
		e.note("strconv.ParseBool / ParseInt / ParseFloat are uninterpreted deterministic parses of the text")
		return []string{"(parseBoolV " + arg(0) + ")", "(parseBoolE " + arg(0) + ")"}
	case "strconv.ParseInt":
		return []string{"(parseIntV " + arg(0) + " " + arg(1) + " " + arg(2) + ")", "(parseIntE " + arg(0) + " " + arg(1) + " " + arg(2) + ")"}
	case "strconv.ParseFloat":
		return []string{"(parseFloatV " + arg(0) + " " + arg(1) + ")", "(parseFloatE " + arg(0) + " " + arg(1) + ")"}
	case "encoding/json.Number.Int64":
		e.note("json.Number.Int64 / Float64 are the uninterpreted parses numInt64 / numFloat of the literal (strconv; assumed deterministic)")
		recv := e.eval(call.Fun.(*ast.SelectorExpr).X, st, ctx)
		return []string{"(numInt64 " + recv + ")", "(numInt64E " + recv + ")"}
	case "encoding/json.Number.Float64":
		recv := e.eval(call.Fun.(*ast.SelectorExpr).X, st, ctx)
		return []string{"(numFloat " + recv + ")", "(numFloatE " + recv + ")"}
	case "encoding/json.Number.String":
		return []string{e.eval(call.Fun.(*ast.SelectorExpr).X, st, ctx)}
	case "path/filepath.Ext":
		return []string{"(pathExt " + arg(0) + ")"}
	case "path/filepath.Abs":
		e.note("filepath.Abs / Rel / IsLocal are the uninterpreted functions pathAbsF/E, pathRelF/E, pathIsLocal (the working directory does not change during an evaluation: assumed)")
		return []string{"(pathAbsF " + arg(0) + ")", "(pathAbsE " + arg(0) + ")"}
	case "path/filepath.Rel":
		return []string{"(pathRelF " + arg(0) + " " + arg(1) + ")", "(pathRelE " + arg(0) + " " + arg(1) + ")"}
	case "path/filepath.IsLocal":
		return []string{"(pathIsLocal " + arg(0) + ")"}
	case "os.Stat":
		e.note("os.Stat(p) fails with the uninterpreted error statE(p): the directory does not change during an evaluation (assumed)")
		info0 := e.fresh(st, "fileinfo", "Int")
		return []string{info0, "(statE " + arg(0) + ")"}
	case "path/filepath.Glob":
		e.note("filepath.Glob(pat) is the uninterpreted pair globRawS / globRawE of the pattern: the directory does not change during an evaluation (assumed)")
		return []string{"(globRawS " + arg(0) + ")", "(globRawE " + arg(0) + ")"}
	case "path/filepath.EvalSymlinks":
		e.note("filepath.EvalSymlinks(p) is the uninterpreted pair evalSymlinksF / evalSymlinksE of the path: links do not change during an evaluation (assumed)")
		return []string{"(evalSymlinksF " + arg(0) + ")", "(evalSymlinksE " + arg(0) + ")"}
	case "os.Environ":
		e.note("os.Environ() is the constant osEnviron: the environment does not change during an evaluation (assumed)")
		return []string{"(Slice osEnviron)"}
	case "os.Exit":
		e.evalArgs(call, st, ctx)
		return nil
	}
	// buffers and the encoders bound to them
	if r, ok := e.bufferCall(call, name, st, ctx); ok {
		return r
	}
	// a hasher created by sha256.New(): Write appends to its input, Sum(nil) is the digest of everything written
	if sel, ok := call.Fun.(*ast.SelectorExpr); ok && e.hashOf != nil {
		if id, ok := sel.X.(*ast.Ident); ok {
			if v, ok := info.ObjectOf(id).(*types.Var); ok {
				if h, ok := st.env[v]; ok {
					if cur, ok := e.hashOf[h]; ok {
						switch sel.Sel.Name {
						case "Write":
							e.hashOf[h] = "(str.++ " + cur + " " + arg(0) + ")"
							return e.havocResults(call, st, ctx, "hashwrite")
						case "Sum":
							return []string{"(sha256raw " + cur + ")"}
						}
					}
				}
			}
		}
	}
	// function literals handed to external code (regexp.ReplaceAllStringFunc): the body is executed once from an
	// arbitrary state so that its obligations are generated; the variables it assigns are forgotten afterwards
	for _, a := range call.Args {
		if lit, ok := a.(*ast.FuncLit); ok {
			e.sweepLiteral(lit, st, ctx)
		}
	}
	// default: evaluate arguments for their side obligations, forget addressed locals, unconstrained results
	if sel, ok := call.Fun.(*ast.SelectorExpr); ok {
		if s, ok := info.Selections[sel]; ok && s.Kind() == types.MethodVal {
			e.eval(sel.X, st, ctx)
		}
	}
	e.evalArgs(call, st, ctx)
	e.havocAddressed(call, st, ctx)
	e.note("external function " + name + ": results unconstrained")
	return e.havocResults(call, st, ctx, sanitize(fn.Name()))
}

// errorfTerm models fmt.Errorf: the error wrapped with %w keeps its identity; the message text is dropped.
func (e *Exec) errorfTerm(call *ast.CallExpr, st *State, ctx *Ctx) string {
	var wrapped []string
	for _, a := range call.Args[1:] {
		t := e.typeOf(a, ctx)
		v := e.eval(a, st, ctx)
		if isErrorType(t) {
			wrapped = append(wrapped, v)
		}
	}
	if len(wrapped) == 1 {
		return "(ite ((_ is E) " + wrapped[0] + ") " + wrapped[0] + " (E 0))"
	}
	e.siteN["errorf"]++
	return fmt.Sprintf("(E (- %d))", e.siteN["errorf"])
}

// sprintfTerm models fmt.Sprintf for constant formats made of %s / %v / %d verbs; anything else is uninterpreted.
func (e *Exec) sprintfTerm(call *ast.CallExpr, st *State, ctx *Ctx) string {
	info := e.info(ctx)
	tv := info.Types[call.Args[0]]
	var args []string
	var argTs []types.Type
	for _, a := range call.Args[1:] {
		args = append(args, e.eval(a, st, ctx))
		argTs = append(argTs, e.typeOf(a, ctx))
	}
	if tv.Value == nil || tv.Value.Kind() != constant.String {
		return e.fresh(st, "sprintf", "String")
	}
	f := constant.StringVal(tv.Value)
	var parts []string
	ai := 0
	lit := ""
	flush := func() {
		if lit != "" {
			parts = append(parts, smtString(lit))
			lit = ""
		}
	}
	ok := true
	for i := 0; i < len(f); i++ {
		if f[i] != '%' {
			lit += string(f[i])
			continue
		}
		if i+1 >= len(f) {
			ok = false
			break
		}
		i++
		switch f[i] {
		case '%':
			lit += "%"
		case 's', 'v', 'd':
			if ai >= len(args) {
				ok = false
				break
			}
			flush()
			a, t := args[ai], argTs[ai]
			ai++
			switch sortOf(t) {
			case "String":
				parts = append(parts, a)
			case "Val":
				parts = append(parts, "(fmtv "+a+")")
			case "Int":
				if isPtrToStruct(t) {
					parts = append(parts, "(fmtRef "+a+")")
				} else {
					parts = append(parts, "(fmtInt "+a+")")
				}
			case "Bool":
				parts = append(parts, "(ite "+a+" \"true\" \"false\")")
			default:
				ok = false
			}
		default:
			ok = false
		}
		if !ok {
			break
		}
	}
	if !ok {
		e.note("fmt.Sprintf(" + strings.ReplaceAll(f, "\n", "\\n") + ") modelled as an uninterpreted string")
		return e.fresh(st, "sprintf", "String")
	}
	flush()
	switch len(parts) {
	case 0:
		return `""`
	case 1:
		return parts[0]
	}
	return "(str.++ " + strings.Join(parts, " ") + ")"
}

// sweepLiteral runs a function literal that is passed to external code: from a state in which everything the literal
// assigns is unknown, with unknown arguments; afterwards the caller's view of those variables is forgotten too.
func (e *Exec) sweepLiteral(lit *ast.FuncLit, st *State, ctx *Ctx) {
	info := e.info(ctx)
	e.closureInfo[lit] = info
	vars, fields := e.assignedVars(st, info, lit.Body)
	e.note("function literal passed to external code is executed from an arbitrary state (any number of calls, unknown arguments)")
	run := st.clone()
	e.havoc(run, vars, fields)
	e.litN++
	litKey := fmt.Sprintf("closure#%d", e.litN)
	for v := range vars {
		if t, ok := run.env[v]; ok {
			run.ghosts[v.Name()+"@entry"] = t
		}
	}
	for _, f := range lit.Type.Params.List {
		for _, name := range f.Names {
			if pv, ok := info.Defs[name].(*types.Var); ok {
				t := e.fresh(run, pv.Name(), sortOf(pv.Type()))
				run.env[pv] = t
				if inv := typeInv(t, pv.Type()); inv != "" {
					run.pc = append(run.pc, inv)
				}
			}
		}
	}
	sig := info.TypeOf(lit).(*types.Signature)
	fr := &frame{fi: nil, loopKey: "", contract: e.fi.Contract, info: info, loopOrd: e.loopOrd}
	for i := 0; i < sig.Results().Len(); i++ {
		fr.resTypes = append(fr.resTypes, sig.Results().At(i).Type())
	}
	fr.ret = func(st2 *State, vals []string) {
		// closure postconditions (contract block `closure N`): checked at every return of the literal
		if c := e.fi.Contract; c != nil {
			if sp, ok := c.Loops[litKey]; ok {
				names := map[string]string{}
				if len(vals) > 0 {
					names["result"] = vals[0]
				}
				for i, cl := range sp.Invariants {
					goal := e.clause(cl.X, st2, names, lit.Body.Rbrace-1, info, clauseInv)
					e.emit(st2, "post", fmt.Sprintf("%s.ensures[%d]", litKey, i+1), goal, cl.Tags, lit.Pos(), cl.Src)
				}
			}
		}
	}
	run.path = append(run.path, "lit")
	e.execBlock(lit.Body.List, run, &Ctx{frame: fr}, func(*State) {})
	e.havoc(st, vars, fields)
}

// bufferCall models bytes.Buffer and the json/yaml/toml encoders writing to one.
func (e *Exec) bufferCall(call *ast.CallExpr, name string, st *State, ctx *Ctx) ([]string, bool) {
	arg := func(i int) string { return e.eval(call.Args[i], st, ctx) }
	switch name {
	case "encoding/json.NewEncoder", "gopkg.in/yaml.v3.NewEncoder", "github.com/pelletier/go-toml/v2.NewEncoder":
		b := arg(0)
		if _, ok := st.bufs[b]; !ok {
			return nil, false
		}
		codec := map[string]string{"encoding/json.NewEncoder": "codecJSON", "gopkg.in/yaml.v3.NewEncoder": "codecYAML", "github.com/pelletier/go-toml/v2.NewEncoder": "codecTOML"}[name]
		h := e.fresh(st, "encoder", "Int")
		st.assume("(> " + h + " 0)")
		st.encs[h] = [3]string{b, codec, "0"}
		return []string{h}, true
	}
	if name == "encoding/json.NewDecoder" && len(call.Args) == 1 {
		// json.NewDecoder(bytes.NewReader(in)): a decoder over the text in; its ghost state is (source, configuration,
		// number of Decode calls so far), kept like an encoder's
		if inner, ok := call.Args[0].(*ast.CallExpr); ok && len(inner.Args) == 1 {
			if nm, _ := e.extName(inner, ctx); nm == "bytes.NewReader" || nm == "strings.NewReader" || nm == "bytes.NewBuffer" || nm == "bytes.NewBufferString" {
				src := e.eval(inner.Args[0], st, ctx)
				h := e.fresh(st, "decoder", "Int")
				st.assume("(> " + h + " 0)")
				st.encs[h] = [3]string{"src:" + src, "codecJSONdec", "0"}
				e.note("json.Decoder over a byte slice: the k-th Decode yields decV(config, text, k) / decE(config, text, k), uninterpreted (assumed: the decoder is a deterministic function of the text and its configuration)")
				return []string{h}, true
			}
		}
	}
	sel, ok := call.Fun.(*ast.SelectorExpr)
	if !ok {
		return nil, false
	}
	if _, isSel := e.info(ctx).Selections[sel]; !isSel {
		return nil, false
	}
	recvT := e.typeOf(sel.X, ctx)
	if recvT == nil || !(strings.Contains(types.TypeString(recvT, nil), "Buffer") || strings.Contains(types.TypeString(recvT, nil), "Encoder") || strings.Contains(types.TypeString(recvT, nil), "Decoder")) {
		return nil, false
	}
	recv := e.eval(sel.X, st, ctx)
	if content, ok := st.bufs[recv]; ok {
		switch sel.Sel.Name {
		case "Write", "WriteString":
			st.bufs[recv] = "(str.++ " + content + " " + arg(0) + ")"
			return e.havocResults(call, st, ctx, "bufwrite"), true
		case "Bytes", "String":
			return []string{content}, true
		case "Len":
			return []string{"(str.len " + content + ")"}, true
		}
		return nil, false
	}
	if enc, ok := st.encs[recv]; ok {
		switch sel.Sel.Name {
		case "SetIndent", "SetEscapeHTML":
			cfg := sel.Sel.Name
			for i := range call.Args {
				cfg += "_" + sanitize(arg(i))
			}
			fn := "cfg_" + cfg
			e.global(fn, fmt.Sprintf("(declare-fun %s (Int) Int)", fn))
			st.encs[recv] = [3]string{enc[0], "(" + fn + " " + enc[1] + ")", enc[2]}
			return nil, true
		case "UseNumber", "DisallowUnknownFields":
			if strings.HasPrefix(enc[0], "src:") {
				fn := "cfg_" + sel.Sel.Name
				if fn != "cfg_UseNumber" { // cfg_UseNumber is declared in the prelude (the reader's contract names it)
					e.global(fn, fmt.Sprintf("(declare-fun %s (Int) Int)", fn))
				}
				st.encs[recv] = [3]string{enc[0], "(" + fn + " " + enc[1] + ")", enc[2]}
				return nil, true
			}
		case "Decode":
			if strings.HasPrefix(enc[0], "src:") && len(call.Args) == 1 {
				if u, ok := call.Args[0].(*ast.UnaryExpr); ok && u.Op.String() == "&" {
					if id, ok := u.X.(*ast.Ident); ok {
						if v, ok := e.info(ctx).ObjectOf(id).(*types.Var); ok && isAny(v.Type()) {
							src := strings.TrimPrefix(enc[0], "src:")
							st.env[v] = "(decV " + enc[1] + " " + src + " " + enc[2] + ")"
							errT := "(decE " + enc[1] + " " + src + " " + enc[2] + ")"
							st.encs[recv] = [3]string{enc[0], enc[1], "(+ " + enc[2] + " 1)"}
							return []string{errT}, true
						}
					}
				}
			}
		case "Encode":
			if strings.HasPrefix(enc[0], "src:") {
				return nil, false
			}
			v := e.evalTo(call.Args[0], types.NewInterfaceType(nil, nil), st, ctx)
			errT := "(encE " + enc[1] + " " + v + " " + enc[2] + ")"
			content := st.bufs[enc[0]]
			st.bufs[enc[0]] = "(ite (isErr " + errT + ") " + content + " (str.++ " + content + " (encS " + enc[1] + " " + v + " " + enc[2] + ")))"
			st.encs[recv] = [3]string{enc[0], enc[1], "(+ " + enc[2] + " 1)"}
			return []string{errT}, true
		}
	}
	return nil, false
}
