package main

import (
	"go/ast"
	"go/token"
	"go/types"
	"sort"
)

// indexFields records every struct field of the repository's named struct types.
func (w *World) indexFields() {
	for _, p := range w.Pkgs {
		sc := p.Types.Scope()
		for _, n := range sc.Names() {
			tn, ok := sc.Lookup(n).(*types.TypeName)
			if !ok {
				continue
			}
			st, ok := tn.Type().Underlying().(*types.Struct)
			if !ok {
				continue
			}
			for i := 0; i < st.NumFields(); i++ {
				w.Fields[tn.Name()+"."+st.Field(i).Name()] = st.Field(i).Type()
			}
		}
		// exported fields of library structs the repository reads through pointers (yaml.Node): contracts may name them
		for _, imp := range p.Types.Imports() {
			if imp.Path() != "gopkg.in/yaml.v3" {
				continue
			}
			if tn, ok := imp.Scope().Lookup("Node").(*types.TypeName); ok {
				if st, ok := tn.Type().Underlying().(*types.Struct); ok {
					for i := 0; i < st.NumFields(); i++ {
						if st.Field(i).Exported() {
							if _, dup := w.Fields["Node."+st.Field(i).Name()]; !dup {
								w.Fields["Node."+st.Field(i).Name()] = st.Field(i).Type()
							}
						}
					}
				}
			}
		}
	}
}

func (w *World) calleeOfCall(c *ast.CallExpr, info *types.Info) *FuncInfo {
	var id *ast.Ident
	switch f := c.Fun.(type) {
	case *ast.Ident:
		id = f
	case *ast.SelectorExpr:
		id = f.Sel
	case *ast.IndexExpr:
		if i, ok := f.X.(*ast.Ident); ok {
			id = i
		}
	}
	if id == nil {
		return nil
	}
	fn, ok := info.Uses[id].(*types.Func)
	if !ok {
		return nil
	}
	if o := fn.Origin(); o != nil {
		fn = o
	}
	return w.ByObj[fn]
}

// buildCallGraph computes direct callees, strongly connected components and syntactic field-write sets.
func (w *World) buildCallGraph() {
	w.callees = map[*FuncInfo][]*FuncInfo{}
	direct := map[*FuncInfo]map[string]types.Type{}
	var all []*FuncInfo
	for _, fi := range w.Funcs {
		all = append(all, fi)
	}
	sort.Slice(all, func(i, j int) bool { return all[i].Key < all[j].Key })
	for _, fi := range all {
		info := fi.Pkg.TypesInfo
		seen := map[*FuncInfo]bool{}
		direct[fi] = map[string]types.Type{}
		ast.Inspect(fi.Decl.Body, func(n ast.Node) bool {
			switch x := n.(type) {
			case *ast.CallExpr:
				if c := w.calleeOfCall(x, info); c != nil && !seen[c] {
					seen[c] = true
					w.callees[fi] = append(w.callees[fi], c)
				}
			case *ast.AssignStmt:
				for _, l := range x.Lhs {
					recordFieldWrite(l, info, direct[fi])
				}
			case *ast.IncDecStmt:
				recordFieldWrite(x.X, info, direct[fi])
			case *ast.UnaryExpr:
				// &T{...}: the new object's fields are initialised (a heap write to a fresh object)
				if cl, ok := x.X.(*ast.CompositeLit); ok && x.Op == token.AND {
					if st, ok := info.TypeOf(cl).Underlying().(*types.Struct); ok {
						for i := 0; i < st.NumFields(); i++ {
							direct[fi][fieldKey(info.TypeOf(cl), st.Field(i).Name())] = st.Field(i).Type()
						}
					}
				}
			}
			return true
		})
	}
	// Tarjan SCC
	w.scc = map[*FuncInfo]int{}
	w.selfRec = map[*FuncInfo]bool{}
	index := map[*FuncInfo]int{}
	low := map[*FuncInfo]int{}
	on := map[*FuncInfo]bool{}
	var stack []*FuncInfo
	idx, comp := 0, 0
	var strong func(v *FuncInfo)
	strong = func(v *FuncInfo) {
		idx++
		index[v], low[v] = idx, idx
		stack = append(stack, v)
		on[v] = true
		for _, c := range w.callees[v] {
			if c == v {
				w.selfRec[v] = true
			}
			if index[c] == 0 {
				strong(c)
				if low[c] < low[v] {
					low[v] = low[c]
				}
			} else if on[c] && index[c] < low[v] {
				low[v] = index[c]
			}
		}
		if low[v] == index[v] {
			comp++
			n := 0
			for {
				x := stack[len(stack)-1]
				stack = stack[:len(stack)-1]
				on[x] = false
				w.scc[x] = comp
				n++
				if x == v {
					break
				}
			}
			if n > 1 {
				for f, c := range w.scc {
					if c == comp {
						w.selfRec[f] = true
					}
				}
			}
		}
	}
	for _, fi := range all {
		if index[fi] == 0 {
			strong(fi)
		}
	}
	w.computeMutParams(all)
	// transitive field-write sets (fixpoint)
	w.modsets = direct
	for changed := true; changed; {
		changed = false
		for _, fi := range all {
			for _, c := range w.callees[fi] {
				for k, t := range w.modsets[c] {
					if _, ok := w.modsets[fi][k]; !ok {
						w.modsets[fi][k] = t
						changed = true
					}
				}
			}
		}
	}
}

func recordFieldWrite(l ast.Expr, info *types.Info, out map[string]types.Type) {
	for {
		switch y := l.(type) {
		case *ast.ParenExpr:
			l = y.X
			continue
		case *ast.IndexExpr:
			l = y.X
			continue
		case *ast.SelectorExpr:
			if sel, ok := info.Selections[y]; ok && sel.Kind() == types.FieldVal {
				if _, isPtr := info.TypeOf(y.X).Underlying().(*types.Pointer); isPtr {
					out[fieldKey(info.TypeOf(y.X), y.Sel.Name)] = info.TypeOf(y)
				}
			}
			return
		default:
			return
		}
	}
}

// modset is the set of struct fields fi may write, directly or through repository callees (syntactic, transitive).
func (w *World) modset(fi *FuncInfo) map[string]types.Type {
	return w.modsets[fi]
}

// sameSCC reports whether a call from a to b stays inside a recursive component of the call graph.
func (w *World) sameSCC(a, b *FuncInfo) bool {
	return w.scc[a] == w.scc[b] && w.selfRec[a] && w.selfRec[b]
}

// computeMutParams finds, per function, the parameters whose container content is written in place (index assignment
// or delete on the parameter itself, or passing it on to such a parameter of a callee).
func (w *World) computeMutParams(all []*FuncInfo) {
	w.mutParams = map[*FuncInfo]map[int]bool{}
	paramIndex := func(fi *FuncInfo, v *types.Var) int {
		sig := fi.Obj.Type().(*types.Signature)
		for i := 0; i < sig.Params().Len(); i++ {
			if sig.Params().At(i) == v {
				return i
			}
		}
		return -1
	}
	for _, fi := range all {
		w.mutParams[fi] = map[int]bool{}
	}
	for changed := true; changed; {
		changed = false
		for _, fi := range all {
			info := fi.Pkg.TypesInfo
			// aliases: type-switch bindings and v2 := v.(T) name the same container as v
			alias := map[*types.Var]*types.Var{}
			ast.Inspect(fi.Decl.Body, func(n ast.Node) bool {
				switch x := n.(type) {
				case *ast.TypeSwitchStmt:
					as, ok := x.Assign.(*ast.AssignStmt)
					if !ok {
						return true
					}
					src, ok := as.Rhs[0].(*ast.TypeAssertExpr).X.(*ast.Ident)
					if !ok {
						return true
					}
					sv, _ := info.ObjectOf(src).(*types.Var)
					for _, cc := range x.Body.List {
						if bv, ok := info.Implicits[cc].(*types.Var); ok && sv != nil {
							alias[bv] = sv
						}
					}
				case *ast.AssignStmt:
					if len(x.Rhs) == 1 {
						if ta, ok := x.Rhs[0].(*ast.TypeAssertExpr); ok {
							if src, ok := ta.X.(*ast.Ident); ok {
								if l, ok := x.Lhs[0].(*ast.Ident); ok {
									lv, _ := info.ObjectOf(l).(*types.Var)
									sv, _ := info.ObjectOf(src).(*types.Var)
									if lv != nil && sv != nil {
										alias[lv] = sv
									}
								}
							}
						}
					}
				}
				return true
			})
			// a parameter that is reassigned (m = maps.Clone(m)) before a write no longer names the caller's container
			reassignedAt := map[*types.Var]token.Pos{}
			ast.Inspect(fi.Decl.Body, func(n ast.Node) bool {
				if as, ok := n.(*ast.AssignStmt); ok {
					for _, l := range as.Lhs {
						if id, ok := l.(*ast.Ident); ok {
							if v, ok := info.ObjectOf(id).(*types.Var); ok {
								if p, seen := reassignedAt[v]; !seen || as.Pos() < p {
									reassignedAt[v] = as.Pos()
								}
							}
						}
					}
				}
				return true
			})
			mark := func(x ast.Expr) {
				id, ok := x.(*ast.Ident)
				if !ok {
					return
				}
				v, ok := info.ObjectOf(id).(*types.Var)
				if !ok {
					return
				}
				if p, ok := reassignedAt[v]; ok && p < x.Pos() {
					return
				}
				for i := 0; i < 4; i++ {
					if a, ok := alias[v]; ok {
						v = a
					}
				}
				if i := paramIndex(fi, v); i >= 0 && !w.mutParams[fi][i] {
					w.mutParams[fi][i] = true
					changed = true
				}
			}
			ast.Inspect(fi.Decl.Body, func(n ast.Node) bool {
				switch x := n.(type) {
				case *ast.AssignStmt:
					for _, l := range x.Lhs {
						if ix, ok := l.(*ast.IndexExpr); ok {
							mark(ix.X)
						}
					}
				case *ast.CallExpr:
					if id, ok := x.Fun.(*ast.Ident); ok {
						if b, ok := info.Uses[id].(*types.Builtin); ok && b.Name() == "delete" && len(x.Args) > 0 {
							mark(x.Args[0])
						}
					}
					if c := w.calleeOfCall(x, info); c != nil {
						for i := range w.mutParams[c] {
							if i < len(x.Args) {
								mark(x.Args[i])
							}
						}
					}
				}
				return true
			})
		}
	}
}

// returnsFreshObject: the function's pointer result is an object it allocates (NewDocument*, Clone, loadFile, ...).
func (w *World) returnsFreshObject(fi *FuncInfo) bool {
	if w.freshObj == nil {
		w.freshObj = map[*FuncInfo]bool{}
		for changed := true; changed; {
			changed = false
			for _, f := range w.Funcs {
				if w.freshObj[f] {
					continue
				}
				sig := f.Obj.Type().(*types.Signature)
				if sig.Results().Len() == 0 || !isPtrToStruct(sig.Results().At(0).Type()) {
					continue
				}
				info := f.Pkg.TypesInfo
				fresh := map[*types.Var]bool{}
				ok := true
				nret := 0
				ast.Inspect(f.Decl.Body, func(n ast.Node) bool {
					switch x := n.(type) {
					case *ast.FuncLit:
						return false
					case *ast.AssignStmt:
						if len(x.Lhs) >= 1 && len(x.Rhs) == 1 {
							if id, ok2 := x.Lhs[0].(*ast.Ident); ok2 {
								if v, ok3 := info.ObjectOf(id).(*types.Var); ok3 && isPtrToStruct(v.Type()) {
									fresh[v] = w.exprFreshObj(x.Rhs[0], info, fresh)
								}
							}
						}
					case *ast.ReturnStmt:
						if len(x.Results) > 0 {
							nret++
							if id, isNil := x.Results[0].(*ast.Ident); isNil && id.Name == "nil" {
								return true
							}
							if !w.exprFreshObj(x.Results[0], info, fresh) {
								ok = false
							}
						}
					}
					return true
				})
				if ok && nret > 0 {
					w.freshObj[f] = true
					changed = true
				}
			}
		}
	}
	return w.freshObj[fi]
}

func (w *World) exprFreshObj(x ast.Expr, info *types.Info, fresh map[*types.Var]bool) bool {
	switch y := x.(type) {
	case *ast.UnaryExpr:
		_, ok := y.X.(*ast.CompositeLit)
		return y.Op == token.AND && ok
	case *ast.CallExpr:
		if c := w.calleeOfCall(y, info); c != nil {
			return w.freshObj[c]
		}
	case *ast.Ident:
		if v, ok := info.ObjectOf(y).(*types.Var); ok {
			return fresh[v]
		}
	}
	return false
}

// ownWrites: struct fields a function writes on objects it did not allocate itself (directly or through callees),
// with the object each write goes to (-1 receiver, i parameter i, -2 anything else).
func (w *World) ownWrites(fi *FuncInfo) map[string]map[int]bool {
	w.ownSummaries()
	return w.ownW[fi]
}

// retSummary: the sources the tree-typed results of fi may share structure with.
func (w *World) retSummary(fi *FuncInfo) ocls {
	w.ownSummaries()
	return w.retSum[fi]
}

// ownSummaries computes write sets and result summaries for all functions by iterating to a fixpoint
// (start optimistic: nothing written, results fresh; every round can only add).
func (w *World) ownSummaries() {
	if w.ownW != nil {
		return
	}
	w.ownW = map[*FuncInfo]map[string]map[int]bool{}
	w.retSum = map[*FuncInfo]ocls{}
	w.retObj = map[*FuncInfo]psrc{}
	var all []*FuncInfo
	for _, fi := range w.Funcs {
		all = append(all, fi)
		w.ownW[fi] = map[string]map[int]bool{}
	}
	sort.Slice(all, func(i, j int) bool { return all[i].Key < all[j].Key })
	for round := 0; round < 12; round++ {
		changed := false
		for _, fi := range all {
			a := &ownAnalyzer{w: w, fi: fi, info: fi.Pkg.TypesInfo, obs: map[string]*OwnOb{}, cFields: map[string]bool{}, writes: map[string]string{},
				writeBases: map[string]map[int]bool{}}
			st := &ownState{cls: map[*types.Var]ocls{}, shallow: map[*types.Var]bool{}, moved: map[string]token.Pos{}, freshP: map[*types.Var]psrc{}}
			sig := fi.Obj.Type().(*types.Signature)
			initPtrParams(sig, st)
			for i := 0; i < sig.Params().Len() && i < 64; i++ {
				p := sig.Params().At(i)
				if !isTreeType(p.Type()) {
					continue
				}
				if paramMode(fi.Contract, p.Name()) != "" {
					st.cls[p] = ocls{dparams: 1 << uint(i)}
				} else {
					st.cls[p] = ocls{bparams: 1 << uint(i)}
				}
			}
			a.block(fi.Decl.Body.List, st)
			for k, bs := range a.writeBases {
				if w.ownW[fi][k] == nil {
					w.ownW[fi][k] = map[int]bool{}
				}
				for b := range bs {
					if !w.ownW[fi][k][b] {
						w.ownW[fi][k][b] = true
						changed = true
					}
				}
			}
			if old := w.retObj[fi]; joinP(old, a.retObj) != old {
				w.retObj[fi] = joinP(old, a.retObj)
				changed = true
			}
			if old := w.retSum[fi]; joinCls(old, a.retCls) != old {
				w.retSum[fi] = joinCls(old, a.retCls)
				changed = true
			}
		}
		if !changed {
			break
		}
	}
}

// retObjSummary: which objects the pointer(-list) result of fi may refer to (fresh objects, its parameters, other).
func (w *World) retObjSummary(fi *FuncInfo) psrc {
	w.ownSummaries()
	p := w.retObj[fi]
	if !p.known {
		return pFresh // no pointer result was ever returned non-nil (or analysis still optimistic)
	}
	return p
}

// expandPreserves turns `preserves-existing` into one frame postcondition per struct field the function may write:
// every object that existed before the call (reference below the allocation boundary at entry) keeps that field.
func (w *World) expandPreserves() {
	for _, fi := range w.pendingPreserves {
		c := fi.Contract
		if c == nil || !c.Preserves {
			continue
		}
		var keys []string
		for k := range w.modsets[fi] {
			keys = append(keys, k)
		}
		sort.Strings(keys)
		for _, k := range keys {
			src := "(forall ((r Int)) (=> (< r allocTop) (= (" + k + " r) (old (" + k + " r)))))"
			x, err := parseOneSX(src)
			if err != nil {
				continue
			}
			c.Ensures = append(c.Ensures, &Clause{Kind: "ensures", X: x, Src: src + "   (preserves-existing)", File: c.File, Line: c.Line})
		}
	}
}
