package main

import (
	"go/ast"
	"go/types"
	"sort"
)

// indexFields records every struct field of the repository's named struct types.
func (w *World) indexFields() {
	for _, p := range w.Pkgs {
		sc := p.Types.Scope()
		for _, n := range sc.Names() {
			tn, ok := sc.Lookup(n).(*types.TypeName)
			if !ok {
				continue
			}
			st, ok := tn.Type().Underlying().(*types.Struct)
			if !ok {
				continue
			}
			for i := 0; i < st.NumFields(); i++ {
				w.Fields[tn.Name()+"."+st.Field(i).Name()] = st.Field(i).Type()
			}
		}
	}
}

func (w *World) calleeOfCall(c *ast.CallExpr, info *types.Info) *FuncInfo {
	var id *ast.Ident
	switch f := c.Fun.(type) {
	case *ast.Ident:
		id = f
	case *ast.SelectorExpr:
		id = f.Sel
	case *ast.IndexExpr:
		if i, ok := f.X.(*ast.Ident); ok {
			id = i
		}
	}
	if id == nil {
		return nil
	}
	fn, ok := info.Uses[id].(*types.Func)
	if !ok {
		return nil
	}
	if o := fn.Origin(); o != nil {
		fn = o
	}
	return w.ByObj[fn]
}

// buildCallGraph computes direct callees, strongly connected components and syntactic field-write sets.
func (w *World) buildCallGraph() {
	w.callees = map[*FuncInfo][]*FuncInfo{}
	direct := map[*FuncInfo]map[string]types.Type{}
	var all []*FuncInfo
	for _, fi := range w.Funcs {
		all = append(all, fi)
	}
	sort.Slice(all, func(i, j int) bool { return all[i].Key < all[j].Key })
	for _, fi := range all {
		info := fi.Pkg.TypesInfo
		seen := map[*FuncInfo]bool{}
		direct[fi] = map[string]types.Type{}
		ast.Inspect(fi.Decl.Body, func(n ast.Node) bool {
			switch x := n.(type) {
			case *ast.CallExpr:
				if c := w.calleeOfCall(x, info); c != nil && !seen[c] {
					seen[c] = true
					w.callees[fi] = append(w.callees[fi], c)
				}
			case *ast.AssignStmt:
				for _, l := range x.Lhs {
					recordFieldWrite(l, info, direct[fi])
				}
			case *ast.IncDecStmt:
				recordFieldWrite(x.X, info, direct[fi])
			}
			return true
		})
	}
	// Tarjan SCC
	w.scc = map[*FuncInfo]int{}
	w.selfRec = map[*FuncInfo]bool{}
	index := map[*FuncInfo]int{}
	low := map[*FuncInfo]int{}
	on := map[*FuncInfo]bool{}
	var stack []*FuncInfo
	idx, comp := 0, 0
	var strong func(v *FuncInfo)
	strong = func(v *FuncInfo) {
		idx++
		index[v], low[v] = idx, idx
		stack = append(stack, v)
		on[v] = true
		for _, c := range w.callees[v] {
			if c == v {
				w.selfRec[v] = true
			}
			if index[c] == 0 {
				strong(c)
				if low[c] < low[v] {
					low[v] = low[c]
				}
			} else if on[c] && index[c] < low[v] {
				low[v] = index[c]
			}
		}
		if low[v] == index[v] {
			comp++
			n := 0
			for {
				x := stack[len(stack)-1]
				stack = stack[:len(stack)-1]
				on[x] = false
				w.scc[x] = comp
				n++
				if x == v {
					break
				}
			}
			if n > 1 {
				for f, c := range w.scc {
					if c == comp {
						w.selfRec[f] = true
					}
				}
			}
		}
	}
	for _, fi := range all {
		if index[fi] == 0 {
			strong(fi)
		}
	}
	// transitive field-write sets (fixpoint)
	w.modsets = direct
	for changed := true; changed; {
		changed = false
		for _, fi := range all {
			for _, c := range w.callees[fi] {
				for k, t := range w.modsets[c] {
					if _, ok := w.modsets[fi][k]; !ok {
						w.modsets[fi][k] = t
						changed = true
					}
				}
			}
		}
	}
}

func recordFieldWrite(l ast.Expr, info *types.Info, out map[string]types.Type) {
	for {
		switch y := l.(type) {
		case *ast.ParenExpr:
			l = y.X
			continue
		case *ast.IndexExpr:
			l = y.X
			continue
		case *ast.SelectorExpr:
			if sel, ok := info.Selections[y]; ok && sel.Kind() == types.FieldVal {
				if _, isPtr := info.TypeOf(y.X).Underlying().(*types.Pointer); isPtr {
					out[fieldKey(info.TypeOf(y.X), y.Sel.Name)] = info.TypeOf(y)
				}
			}
			return
		default:
			return
		}
	}
}

// modset is the set of struct fields fi may write, directly or through repository callees (syntactic, transitive).
func (w *World) modset(fi *FuncInfo) map[string]types.Type {
	return w.modsets[fi]
}

// sameSCC reports whether a call from a to b stays inside a recursive component of the call graph.
func (w *World) sameSCC(a, b *FuncInfo) bool {
	return w.scc[a] == w.scc[b] && w.selfRec[a] && w.selfRec[b]
}
