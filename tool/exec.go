package main

import (
	"os"
	"fmt"
	"go/ast"
	"go/token"
	"go/types"
	"sort"
	"strings"
)

// Ob is one proof obligation: Decls/PC |= Goal (or, for ExpectSat, Decls/PC must be satisfiable).
type Ob struct {
	Key       string // structural name, e.g. ".:mergeMapMap.post[2]"
	Func      string
	Kind      string // post pre inv-init inv-step nopanic term reach lemma
	Path      string
	Tags      []string
	Decls     []string
	PC        []string
	Goal      string
	Pos       string
	Clause    string
	ExpectSat bool
	Lemmas    []string
	Witness   *regexWitness // relang obligations: how a refutation (a value of s) is replayed on the real code
}

type unsupported struct {
	what string
	pos  token.Pos
}

type State struct {
	env      map[*types.Var]string
	decls    []string
	pc       []string
	guards   []string
	path     []string
	pre      map[string]string
	ghosts   map[string]string
	snaps    map[*types.Var]string
	closures map[*types.Var]*ast.FuncLit
	defers   []*ast.FuncLit // deferred function literals registered on this path (run at return, last first)
	errBases []map[string]string // per enclosing loop: callErrs at the loop head (a failed call must not survive an iteration)
	callErrs map[string]string // call site -> the error term that call returned on this path (for `propagates`)
	heap     map[string]string
	heap0    map[string]string
	allocs   []string
	bufs     map[string]string   // bytes.Buffer handle -> content written so far
	encs     map[string][3]string // encoder handle -> {buffer handle, codec term, number of Encode calls so far}
	pcTags   map[int][]string    // path-condition entries that are only relevant for obligations carrying one of these tags
	top      string              // allocation boundary: every reference allocated so far is < top
	top0     string              // its value at function entry
	nonNil   map[*types.Var]bool // tree maps known to be non-nil (created by a literal / make, only index-assigned since)
	preval   map[*ast.CallExpr]string // nested calls of helpers without a contract, already executed through their bodies
}

func (s *State) clone() *State {
	n := &State{top: s.top, top0: s.top0,
		env: make(map[*types.Var]string, len(s.env)), pre: s.pre, ghosts: map[string]string{},
		snaps: map[*types.Var]string{}, closures: map[*types.Var]*ast.FuncLit{}, heap: map[string]string{}, heap0: s.heap0,
	}
	for k, v := range s.env {
		n.env[k] = v
	}
	for k, v := range s.ghosts {
		n.ghosts[k] = v
	}
	for k, v := range s.snaps {
		n.snaps[k] = v
	}
	for k, v := range s.closures {
		n.closures[k] = v
	}
	for k, v := range s.heap {
		n.heap[k] = v
	}
	n.defers = append([]*ast.FuncLit(nil), s.defers...)
	n.callErrs = map[string]string{}
	for k, v := range s.callErrs {
		n.callErrs[k] = v
	}
	n.errBases = append([]map[string]string(nil), s.errBases...)
	n.decls = append([]string(nil), s.decls...)
	n.pc = append([]string(nil), s.pc...)
	n.guards = append([]string(nil), s.guards...)
	n.path = append([]string(nil), s.path...)
	n.allocs = append([]string(nil), s.allocs...)
	n.bufs = map[string]string{}
	for k, v := range s.bufs {
		n.bufs[k] = v
	}
	n.encs = map[string][3]string{}
	for k, v := range s.encs {
		n.encs[k] = v
	}
	n.pcTags = map[int][]string{}
	for k, v := range s.pcTags {
		n.pcTags[k] = v
	}
	n.nonNil = map[*types.Var]bool{}
	for k, v := range s.nonNil {
		n.nonNil[k] = v
	}
	if len(s.preval) > 0 {
		n.preval = map[*ast.CallExpr]string{}
		for k, v := range s.preval {
			n.preval[k] = v
		}
	}
	return n
}

func (s *State) assume(t string) {
	if len(s.guards) > 0 {
		t = "(=> " + andAll(s.guards) + " " + t + ")"
	}
	s.pc = append(s.pc, t)
}

func andAll(ts []string) string {
	switch len(ts) {
	case 0:
		return "true"
	case 1:
		return ts[0]
	}
	return "(and " + strings.Join(ts, " ") + ")"
}

type frame struct {
	fi       *FuncInfo // nil for a closure body
	ret      func(st *State, vals []string)
	loopKey  string        // "" for the function under verification, "filterList#1/" for an inlined callee
	contract *FuncContract // contract to take this frame's own loop specs from (may be nil)
	results  []*types.Var  // named results, if any
	loopOrd  map[ast.Node]int
	resTypes []types.Type
	info     *types.Info
}

func (f *frame) declOf() ast.Node {
	if f.fi != nil {
		return f.fi.Decl
	}
	return nil
}

type Ctx struct {
	parent *Ctx
	label  string
	brk    func(*State)
	cont   func(*State)
	frame  *frame
}

func (c *Ctx) with(label string, brk, cont func(*State)) *Ctx {
	return &Ctx{parent: c, label: label, brk: brk, cont: cont, frame: c.frame}
}

type Exec struct {
	w        *World
	fi       *FuncInfo
	lapsed   map[string]string
	obs      []*Ob
	n        int
	loopOrd  map[ast.Node]int
	callOrd  map[*ast.CallExpr]string
	npaths   int
	assumed  map[string]bool
	globals  map[string]string // extra declarations shared by all obligations of this function
	gorder   []string
	sweep    bool // emit nopanic obligations
	inlineDepth int
	siteN    map[string]int
	closureInfo map[*ast.FuncLit]*types.Info
	callSites   []token.Pos
	directAssigned map[*types.Var]bool
	litN           int
	hashOf         map[string]string // hasher handle -> concatenation of everything written to it
	heapInit       map[string]string // field key -> the array constant that stands for the heap at function entry
}

const maxPaths = 4000

func (e *Exec) unsupported(pos token.Pos, f string, a ...any) {
	panic(unsupported{fmt.Sprintf(f, a...), pos})
}

func (e *Exec) fresh(st *State, hint, sort string) string {
	e.n++
	hint = strings.Map(func(r rune) rune {
		if r >= 'a' && r <= 'z' || r >= 'A' && r <= 'Z' || r >= '0' && r <= '9' || r == '_' {
			return r
		}
		return '_'
	}, hint)
	name := fmt.Sprintf("%s!%d", hint, e.n)
	st.decls = append(st.decls, fmt.Sprintf("(declare-const %s %s)", name, sort))
	return name
}

func (e *Exec) global(name, decl string) {
	if _, ok := e.globals[name]; !ok {
		e.globals[name] = decl
		e.gorder = append(e.gorder, name)
	}
}

func (e *Exec) note(s string) { e.assumed[s] = true }

func (e *Exec) pos(p token.Pos) string {
	pp := e.w.Fset.Position(p)
	return fmt.Sprintf("%s:%d", strings.TrimPrefix(pp.Filename, e.w.RepoDir+"/"), pp.Line)
}

// emit records an obligation under the current path condition.
// assumeTagged adds a fact that is only handed to obligations sharing one of the tags (keeps unrelated queries small).
func (st *State) assumeTagged(t string, tags []string) {
	if len(tags) > 0 {
		if st.pcTags == nil {
			st.pcTags = map[int][]string{}
		}
		st.pcTags[len(st.pc)] = tags
	}
	st.pc = append(st.pc, t)
}

// onlyOwnTags: clauses that belong to a single-purpose group (currently the pass-through clauses of C06) are only used
// for obligations of that group; everything else is shared.
func onlyOwnTags(tags []string) []string {
	if len(tags) == 1 && tags[0] == "C06" {
		return tags
	}
	return nil
}

func hasTag(a []string, t string) bool {
	for _, x := range a {
		if x == t {
			return true
		}
	}
	return false
}

func sharesTag(a, b []string) bool {
	for _, x := range a {
		for _, y := range b {
			if x == y {
				return true
			}
		}
	}
	return false
}

func (e *Exec) emit(st *State, kind, key, goal string, tags []string, p token.Pos, clause string) {
	var pc []string
	for i, t := range st.pc {
		if tg, ok := st.pcTags[i]; ok && !sharesTag(tg, tags) {
			continue
		}
		pc = append(pc, t)
	}
	if len(st.guards) > 0 {
		pc = append(pc, st.guards...)
	}
	ob := &Ob{Key: e.fi.Key + "." + key, Func: e.fi.Key, Kind: kind, Path: strings.Join(st.path, "."), Tags: tags,
		Decls: append([]string(nil), st.decls...), PC: pc, Goal: goal, Pos: e.pos(p), Clause: clause}
	if e.fi.Contract != nil {
		ob.Lemmas = e.fi.Contract.Lemmas
	}
	e.obs = append(e.obs, ob)
}

// ---------------------------------------------------------------------------------------------
// sorts and type invariants

func isAny(t types.Type) bool {
	it, ok := t.Underlying().(*types.Interface)
	return ok && it.NumMethods() == 0
}

func isErrorType(t types.Type) bool {
	return types.Identical(t, types.Universe.Lookup("error").Type())
}

func isTreeMap(t types.Type) bool {
	m, ok := t.Underlying().(*types.Map)
	if !ok {
		return false
	}
	b, ok := m.Key().Underlying().(*types.Basic)
	return ok && b.Kind() == types.String && isAny(m.Elem())
}

func isTreeList(t types.Type) bool {
	s, ok := t.Underlying().(*types.Slice)
	return ok && isAny(s.Elem())
}

func isStringList(t types.Type) bool {
	s, ok := t.Underlying().(*types.Slice)
	if !ok {
		return false
	}
	b, ok := s.Elem().Underlying().(*types.Basic)
	return ok && b.Kind() == types.String
}

func isByteSlice(t types.Type) bool {
	s, ok := t.Underlying().(*types.Slice)
	if !ok {
		return false
	}
	b, ok := s.Elem().Underlying().(*types.Basic)
	return ok && (b.Kind() == types.Byte || b.Kind() == types.Uint8)
}

func isPtrToStruct(t types.Type) bool {
	p, ok := t.Underlying().(*types.Pointer)
	if !ok {
		return false
	}
	_, ok = p.Elem().Underlying().(*types.Struct)
	return ok
}

func isRefList(t types.Type) bool {
	s, ok := t.Underlying().(*types.Slice)
	return ok && isPtrToStruct(s.Elem())
}

func isRefMap(t types.Type) bool {
	m, ok := t.Underlying().(*types.Map)
	if !ok {
		return false
	}
	b, ok := m.Key().Underlying().(*types.Basic)
	return ok && b.Kind() == types.String && isPtrToStruct(m.Elem())
}

func isUTF8String(t types.Type) bool {
	if p, ok := t.(*types.Pointer); ok {
		t = p.Elem()
	}
	n, ok := t.(*types.Named)
	return ok && n.Obj().Name() == "String" && n.Obj().Pkg() != nil && strings.HasSuffix(n.Obj().Pkg().Path(), "utf8string")
}

func isJSONNumber(t types.Type) bool {
	n, ok := t.(*types.Named)
	return ok && n.Obj().Name() == "Number" && n.Obj().Pkg() != nil && n.Obj().Pkg().Path() == "encoding/json"
}

// sortOf maps a Go type to the SMT sort of its model.
func sortOf(t types.Type) string {
	if t == nil {
		return "Int"
	}
	switch {
	case isErrorType(t):
		return "ErrV"
	case isAny(t), isTreeMap(t), isTreeList(t):
		return "Val"
	case isStringList(t):
		return "SSlice" // nil or a sequence of strings: []string nil-ness is observable (file.parents)
	case isByteSlice(t):
		return "String"
	case isUTF8String(t):
		return "String"
	case isRefList(t):
		return "RLst"
	case isRefMap(t):
		return "(Array String Int)"
	}
	switch u := t.Underlying().(type) {
	case *types.Basic:
		switch {
		case u.Info()&types.IsString != 0:
			return "String"
		case u.Info()&types.IsBoolean != 0:
			return "Bool"
		case u.Info()&types.IsInteger != 0:
			return "Int"
		case u.Info()&types.IsFloat != 0:
			return "Int" // opaque float identity
		case u.Kind() == types.UntypedNil:
			return "Val"
		}
	case *types.Pointer:
		return "Int"
	}
	return "Int" // opaque handle
}

// typeInv is the invariant a model value of Go type t satisfies by typing alone.
func typeInv(term string, t types.Type) string {
	switch {
	case isAny(t):
		return "(not (= " + term + " VAbsent))"
	case isTreeMap(t):
		return "(or ((_ is VMap) " + term + ") (= " + term + " VNil))"
	case isTreeList(t):
		return "((_ is VList) " + term + ")"
	}
	return ""
}

func zeroOf(t types.Type) string {
	switch sortOf(t) {
	case "ErrV":
		return "NoErr"
	case "Val":
		if isTreeList(t) {
			return "(VList LNil)"
		}
		return "VNil"
	case "SLst":
		return "SNil"
	case "SSlice":
		return "SliceNil"
	case "RLst":
		return "RNil"
	case "String":
		return `""`
	case "Bool":
		return "false"
	case "(Array String Int)":
		return "emptyRM"
	}
	return "0"
}

func typeTag(t types.Type) int {
	s := types.TypeString(t, nil)
	switch s {
	case "[]map[string]any", "[]map[string]interface{}":
		return 7 // TOML array of tables
	case "map[any]any", "map[interface{}]interface{}":
		return 8 // YAML map with non-string keys
	}
	h := 0
	for _, c := range s {
		h = (h*31 + int(c)) % 1000003
	}
	return h + 10
}

// wrapVal converts a model value of static type from into the Val it has when stored in an `any`.
func wrapVal(term string, from types.Type) string {
	if from == nil {
		return term
	}
	if isAny(from) || isTreeMap(from) || isTreeList(from) {
		return term
	}
	if isJSONNumber(from) {
		return "(VNum " + term + ")"
	}
	if b, ok := from.Underlying().(*types.Basic); ok {
		switch {
		case b.Kind() == types.UntypedNil:
			return "VNil"
		case b.Info()&types.IsString != 0:
			return "(VStr " + term + ")"
		case b.Info()&types.IsBoolean != 0:
			return "(VBool " + term + ")"
		case b.Kind() == types.Int64:
			return "(VI64 " + term + ")"
		case b.Kind() == types.Int || b.Kind() == types.UntypedInt || b.Kind() == types.UntypedRune:
			return "(VInt " + term + ")"
		case b.Info()&types.IsFloat != 0:
			return "(VFlt " + term + ")"
		}
	}
	if sortOf(from) == "Int" {
		return fmt.Sprintf("(VOth %d %s)", typeTag(from), term)
	}
	return fmt.Sprintf("(VOth %d 0)", typeTag(from))
}

// typeCond is the condition under which a Val holds a Go value of dynamic type t; unwrapVal projects it.
func typeCond(term string, t types.Type) string {
	switch {
	case t == nil:
		return "(= " + term + " VNil)"
	case isTreeMap(t):
		return "((_ is VMap) " + term + ")"
	case isTreeList(t):
		return "((_ is VList) " + term + ")"
	case isJSONNumber(t):
		return "((_ is VNum) " + term + ")"
	case isAny(t):
		return "(not (= " + term + " VNil))"
	}
	if b, ok := t.Underlying().(*types.Basic); ok {
		if _, named := t.(*types.Named); !named {
			switch {
			case b.Kind() == types.UntypedNil:
				return "(= " + term + " VNil)"
			case b.Kind() == types.String:
				return "((_ is VStr) " + term + ")"
			case b.Kind() == types.Bool:
				return "((_ is VBool) " + term + ")"
			case b.Kind() == types.Int64:
				return "((_ is VI64) " + term + ")"
			case b.Kind() == types.Int:
				return "((_ is VInt) " + term + ")"
			case b.Kind() == types.Float64:
				return "((_ is VFlt) " + term + ")"
			}
		}
	}
	return fmt.Sprintf("(and ((_ is VOth) %s) (= (ot %s) %d))", term, term, typeTag(t))
}

func unwrapVal(term string, t types.Type) string {
	switch {
	case isAny(t), isTreeMap(t), isTreeList(t):
		return term
	case isJSONNumber(t):
		return "(nv " + term + ")"
	}
	if b, ok := t.Underlying().(*types.Basic); ok {
		if _, named := t.(*types.Named); !named {
			switch {
			case b.Kind() == types.String:
				return "(sv " + term + ")"
			case b.Kind() == types.Bool:
				return "(bv " + term + ")"
			case b.Kind() == types.Int64:
				return "(lv " + term + ")"
			case b.Kind() == types.Int:
				return "(iv " + term + ")"
			case b.Kind() == types.Float64:
				return "(fv " + term + ")"
			}
		}
	}
	if sortOf(t) == "Int" {
		return "(op " + term + ")"
	}
	return ""
}

// conv converts a model value from static type `from` to static type `to`.
func (e *Exec) conv(term string, from, to types.Type) string {
	if to == nil || from == nil {
		return term
	}
	if isAny(to) && !isAny(from) {
		return wrapVal(term, from)
	}
	if b, ok := from.Underlying().(*types.Basic); ok && b.Kind() == types.UntypedNil {
		return zeroOf(to)
	}
	return term
}

// ---------------------------------------------------------------------------------------------
// heap (struct fields as arrays indexed by reference)

func fieldKey(recv types.Type, field string) string {
	if p, ok := recv.Underlying().(*types.Pointer); ok {
		recv = p.Elem()
	}
	name := "struct"
	if n, ok := recv.(*types.Named); ok {
		name = n.Obj().Name()
	}
	return name + "." + field
}

func (e *Exec) heapArr(st *State, key string, ft types.Type) string {
	if a, ok := st.heap[key]; ok {
		return a
	}
	name := "H0_" + strings.ReplaceAll(key, ".", "_")
	e.global(name, fmt.Sprintf("(declare-const %s (Array Int %s))", name, sortOf(ft)))
	if e.heapInit == nil {
		e.heapInit = map[string]string{}
	}
	e.heapInit[key] = name
	st.heap[key] = name
	if st.heap0 != nil {
		if _, ok := st.heap0[key]; !ok {
			st.heap0[key] = name
		}
	}
	return name
}

// ---------------------------------------------------------------------------------------------
// function-level driver

func numberLoops(root ast.Node) map[ast.Node]int {
	m := map[ast.Node]int{}
	n := 0
	ast.Inspect(root, func(x ast.Node) bool {
		switch x.(type) {
		case *ast.ForStmt, *ast.RangeStmt:
			n++
			m[x] = n
		}
		return true
	})
	return m
}

// inlinable reports whether fi takes a function-typed parameter (filterList, filterMap): such functions are
// executed by inlining their real body at the call site, with the caller's function literal bound to the parameter.
func inlinable(fi *FuncInfo) bool {
	if fi == nil || fi.Obj == nil {
		return false
	}
	sig := fi.Obj.Type().(*types.Signature)
	for i := 0; i < sig.Params().Len(); i++ {
		if _, ok := sig.Params().At(i).Type().Underlying().(*types.Signature); ok {
			return true
		}
	}
	return false
}

func (e *Exec) numberCalls(root ast.Node, info *types.Info) {
	cnt := map[string]int{}
	ast.Inspect(root, func(x ast.Node) bool {
		c, ok := x.(*ast.CallExpr)
		if !ok {
			return true
		}
		callee := e.calleeOf(c, info)
		if callee == nil {
			callee = e.modelCallee(c, info)
		}
		if callee != nil {
			cnt[callee.Name]++
			e.callOrd[c] = fmt.Sprintf("%s#%d", callee.Name, cnt[callee.Name])
		}
		return true
	})
}

func (e *Exec) calleeOf(c *ast.CallExpr, info *types.Info) *FuncInfo {
	var id *ast.Ident
	switch f := c.Fun.(type) {
	case *ast.Ident:
		id = f
	case *ast.SelectorExpr:
		id = f.Sel
	case *ast.IndexExpr:
		if i, ok := f.X.(*ast.Ident); ok {
			id = i
		}
	}
	if id == nil {
		return nil
	}
	fn, ok := info.Uses[id].(*types.Func)
	if !ok {
		return nil
	}
	if o := fn.Origin(); o != nil {
		fn = o
	}
	return e.w.ByObj[fn]
}

type FuncResult struct {
	Func        *FuncInfo
	Lapsed      map[string]string // untagged invariants that could not be resolved (a local they name is gone): left out
	Obs         []*Ob
	Paths       int
	Unsupported string
	Assumed     []string
	Globals     []string
}

// verifyFunc symbolically executes one function under its contract and returns its obligations.
func verifyFunc(w *World, fi *FuncInfo, sweep bool) (res *FuncResult) {
	e := &Exec{w: w, fi: fi, loopOrd: numberLoops(fi.Decl), callOrd: map[*ast.CallExpr]string{}, assumed: map[string]bool{},
		globals: map[string]string{}, sweep: sweep, siteN: map[string]int{}, closureInfo: map[*ast.FuncLit]*types.Info{}}
	res = &FuncResult{Func: fi}
	defer func() {
		if r := recover(); r != nil {
			if u, ok := r.(unsupported); ok {
				res.Unsupported = fmt.Sprintf("%s: %s", e.pos(u.pos), u.what)
				res.Obs = nil
				return
			}
			panic(r)
		}
	}()
	info := fi.Pkg.TypesInfo
	e.numberCalls(fi.Decl, info)
	st := &State{env: map[*types.Var]string{}, pre: map[string]string{}, ghosts: map[string]string{}, snaps: map[*types.Var]string{},
		closures: map[*types.Var]*ast.FuncLit{}, heap: map[string]string{}, heap0: map[string]string{}, nonNil: map[*types.Var]bool{},
		bufs: map[string]string{}, encs: map[string][3]string{}}
	st.top = e.fresh(st, "allocTop0", "Int")
	st.top0 = st.top
	st.pc = append(st.pc, "(> "+st.top+" 0)")
	sig := fi.Obj.Type().(*types.Signature)
	bind := func(v *types.Var) {
		if v.Name() == "_" || v.Name() == "" {
			return
		}
		t := e.fresh(st, v.Name()+"0", sortOf(v.Type()))
		st.env[v] = t
		st.pre[v.Name()] = t
		if inv := typeInv(t, v.Type()); inv != "" {
			st.pc = append(st.pc, inv)
		}
		if isPtrToStruct(v.Type()) {
			st.pc = append(st.pc, "(and (>= "+t+" 0) (< "+t+" "+st.top+"))")
		}
	}
	if sig.Recv() != nil {
		bind(sig.Recv())
	}
	for i := 0; i < sig.Params().Len(); i++ {
		bind(sig.Params().At(i))
	}
	fr := &frame{fi: fi, contract: fi.Contract, info: info, loopOrd: e.loopOrd}
	for i := 0; i < sig.Results().Len(); i++ {
		rv := sig.Results().At(i)
		fr.resTypes = append(fr.resTypes, rv.Type())
		if rv.Name() != "" && rv.Name() != "_" {
			st.env[rv] = zeroOf(rv.Type())
			fr.results = append(fr.results, rv)
		}
	}
	c := fi.Contract
	if c != nil {
		for _, r := range c.Requires {
			st.pc = append(st.pc, e.clause(r.X, st, nil, fi.Decl.Body.Lbrace, info, clauseEntry))
		}
		// vacuity: the precondition must be satisfiable
		ob := &Ob{Key: fi.Key + ".reach[requires]", Func: fi.Key, Kind: "reach", Decls: append([]string(nil), st.decls...),
			PC: append([]string(nil), st.pc...), Goal: "true", ExpectSat: true, Pos: e.pos(fi.Decl.Pos()), Lemmas: c.Lemmas}
		e.obs = append(e.obs, ob)
	}
	entry := st
	nEntryPC := len(st.pc)
	var finish func(st *State, vals []string)
	fr.ret = func(st *State, vals []string) {
		// deferred function literals run after the result values are set and may change named results
		if len(st.defers) == 0 {
			finish(st, vals)
			return
		}
		for i, rv := range fr.results {
			if i < len(vals) {
				st.env[rv] = vals[i]
			}
		}
		ds := st.defers
		st.defers = nil
		var runFrom func(i int, st2 *State)
		runFrom = func(i int, st2 *State) {
			if i < 0 {
				out := vals
				if len(fr.results) == len(vals) {
					out = nil
					for _, rv := range fr.results {
						out = append(out, st2.env[rv])
					}
				}
				finish(st2, out)
				return
			}
			lit := ds[i]
			lfr := &frame{fi: nil, loopKey: "", contract: e.fi.Contract, info: info, loopOrd: e.loopOrd}
			lfr.ret = func(st3 *State, _ []string) { runFrom(i-1, st3) }
			st2.path = append(st2.path, fmt.Sprintf("defer%d", i))
			e.execBlock(lit.Body.List, st2, &Ctx{frame: lfr}, func(st3 *State) { runFrom(i-1, st3) })
		}
		runFrom(len(ds)-1, st)
	}
	finish = func(st *State, vals []string) {
		if os.Getenv("VERIF_DEADPATHS") != "" {
			// diagnostic: is this return path reachable at all (a contradictory path condition makes everything on it vacuous)
			e.obs = append(e.obs, &Ob{Key: fi.Key + ".reachpath[" + strings.Join(st.path, ".") + "]", Func: fi.Key, Kind: "reach", Path: strings.Join(st.path, "."),
				Decls: append([]string(nil), st.decls...), PC: append([]string(nil), st.pc...), Goal: "true", ExpectSat: true, Pos: e.pos(fi.Decl.Pos())})
		}
		e.npaths++
		if e.npaths > maxPaths {
			e.unsupported(fi.Decl.Pos(), "more than %d paths", maxPaths)
		}
		for v, snap := range st.snaps {
			st.pc = append(st.pc, "(= "+snap+" "+st.env[v]+")")
		}
		if c == nil {
			return
		}
		names := map[string]string{}
		for i := 0; i < sig.Params().Len(); i++ {
			if pv := sig.Params().At(i); pv.Name() != "" && pv.Name() != "_" {
				names[pv.Name()+"@post"] = st.env[pv]
			}
		}
		for i, rn := range c.Results {
			if i < len(vals) {
				names[rn] = vals[i]
			}
		}
		// `propagates G#n`: on every path on which that call failed, this function fails too
		props := c.Propagates
		if len(props) == 1 && props[0] == "all" {
			props = nil
			for k := range st.callErrs {
				props = append(props, strings.TrimSuffix(strings.TrimPrefix(k, "call["), "]"))
			}
			sort.Strings(props)
		}
		for _, site := range props {
			if et, ok := st.callErrs["call["+site+"]"]; ok {
				errIdx := -1
				for i, rt := range fr.resTypes {
					if isErrorType(rt) {
						errIdx = i
					}
				}
				if errIdx >= 0 && errIdx < len(vals) {
					e.emit(st, "prop", "propagates["+site+"]", "(=> (isErr "+et+") (isErr "+vals[errIdx]+"))", c.PropagatesTags, fi.Decl.Pos(), "a failure of "+site+" is a failure of "+fi.Name)
				} else if errIdx < 0 {
					// a function without an error result (a tool's main): it must not reach its end after a failed call
					e.emit(st, "prop", "propagates["+site+"]", "(not (isErr "+et+"))", c.PropagatesTags, fi.Decl.Pos(), fi.Name+" ends normally only if "+site+" succeeded")
				}
			}
		}
		// `fails-only-through-calls`: the converse of propagates - no failure of the function's own making
		if c.FailsOnlyVia {
			errIdx := -1
			for i, rt := range fr.resTypes {
				if isErrorType(rt) {
					errIdx = i
				}
			}
			if errIdx >= 0 && errIdx < len(vals) {
				var any []string
				var ks []string
				for k := range st.callErrs {
					ks = append(ks, k)
				}
				sort.Strings(ks)
				for _, k := range ks {
					any = append(any, "(isErr "+st.callErrs[k]+")")
				}
				goal := "(not (isErr " + vals[errIdx] + "))"
				if len(any) > 0 {
					goal = "(=> (isErr " + vals[errIdx] + ") (or " + strings.Join(any, " ") + " false))"
				}
				e.emit(st, "post", "fails-only-through-calls", goal, c.FailsOnlyTags, fi.Decl.Pos(), fi.Name+" fails only if one of its calls failed")
			}
		}
		postStart := len(st.pc)
		for i, en := range c.Ensures {
			goal := e.clause(en.X, st, names, fi.Decl.Body.Rbrace, info, clausePost)
			if en.Follows {
				// a consequence of the entry facts and the earlier ensures alone: the path is dropped from the query
				cut := st.clone()
				cut.pcTags = map[int][]string{}
				cut.pc = append([]string(nil), st.pc[:nEntryPC]...)
				for j := postStart; j < len(st.pc); j++ {
					if tg, ok := st.pcTags[j]; ok {
						cut.pcTags[len(cut.pc)] = tg
					}
					cut.pc = append(cut.pc, st.pc[j])
				}
				cut.guards = nil
				e.emit(cut, "post", fmt.Sprintf("post[%d]", i+1), goal, en.Tags, fi.Decl.Pos(), en.Src)
				st.assumeTagged(goal, en.Tags)
				continue
			}
			e.emit(st, "post", fmt.Sprintf("post[%d]", i+1), goal, en.Tags, fi.Decl.Pos(), en.Src)
			// clauses are proved in order: earlier ones may be used for later ones on the same path
			st.assumeTagged(goal, en.Tags)
		}
	}
	_ = entry
	ctx := &Ctx{frame: fr}
	e.execBlock(fi.Decl.Body.List, st, ctx, func(st *State) {
		// fell off the end: only legal for functions without results
		var vals []string
		for _, rv := range fr.results {
			vals = append(vals, st.env[rv])
		}
		fr.ret(st, vals)
	})
	res.Obs = e.obs
	res.Lapsed = e.lapsed
	res.Paths = e.npaths
	for a := range e.assumed {
		res.Assumed = append(res.Assumed, a)
	}
	sort.Strings(res.Assumed)
	for _, g := range e.gorder {
		res.Globals = append(res.Globals, e.globals[g])
	}
	return res
}
