package main

import (
	"encoding/json"
	"flag"
	"fmt"
	"os"
	"path/filepath"
	"runtime"
	"sort"
	"strings"
	"time"
)

var (
	verifDir = "/verif"
	repoDir  = "/repo"
)

func main() {
	if v := os.Getenv("VERIF_REPO"); v != "" {
		repoDir = v
	}
	if v := os.Getenv("VERIF_DIR"); v != "" {
		verifDir = v
	}
	if len(os.Args) < 2 {
		fmt.Fprintln(os.Stderr, "usage: bklverif <check|funcs|dump> ...")
		os.Exit(2)
	}
	switch os.Args[1] {
	case "check":
		os.Exit(cmdCheck(os.Args[2:]))
	case "own":
		w, _ := setup()
		for _, a := range os.Args[2:] {
			for _, fi := range w.Funcs {
				if fi.Key == a || fi.Name == a {
					for _, o := range ownFunc(w, fi) {
						fmt.Printf("%v %s  %s  %s\n", o.OK, o.Key, o.Pos, o.Why)
					}
				}
			}
		}
		os.Exit(0)
	case "funcs":
		os.Exit(cmdFuncs(os.Args[2:]))
	default:
		fmt.Fprintln(os.Stderr, "unknown command", os.Args[1])
		os.Exit(2)
	}
}

func must(err error) {
	if err != nil {
		fmt.Fprintln(os.Stderr, "bklverif: internal error:", err)
		os.Exit(2)
	}
}

func setup() (*World, *SpecLib) {
	w, err := loadWorld(repoDir, filepath.Join(verifDir, "contracts"))
	must(err)
	w.indexFields()
	w.buildCallGraph()
	w.expandPreserves()
	lib, err := loadSpecLib(filepath.Join(verifDir, "spec"))
	must(err)
	return w, lib
}

// cmdFuncs verifies the named functions (or all functions with contracts) and prints one line per obligation.
func cmdFuncs(args []string) int {
	fs := flag.NewFlagSet("funcs", flag.ExitOnError)
	to := fs.Int("t", 10, "solver timeout (s)")
	sweep := fs.Bool("sweep", false, "emit nopanic/termination obligations")
	verbose := fs.Bool("v", false, "print failing obligations' files")
	fs.Parse(args)
	w, lib := setup()
	var fis []*FuncInfo
	if fs.NArg() == 0 {
		for _, fi := range w.Funcs {
			if fi.Contract != nil && !fi.Contract.Trusted && !inlinable(fi) {
				fis = append(fis, fi)
			}
		}
	} else {
		for _, a := range fs.Args() {
			found := false
			for _, fi := range w.Funcs {
				if fi.Key == a || fi.Name == a {
					fis = append(fis, fi)
					found = true
				}
			}
			if !found {
				fmt.Fprintln(os.Stderr, "no such function:", a)
				return 2
			}
		}
	}
	sort.Slice(fis, func(i, j int) bool { return fis[i].Key < fis[j].Key })
	p := &Prover{Lib: lib, WorkDir: filepath.Join(verifDir, "work"), Timeout: time.Duration(*to) * time.Second, Par: (runtime.NumCPU() + 1) / 2}
	var obs []*Ob
	globals := map[string][]string{}
	for _, fi := range fis {
		r := verifyFunc(w, fi, *sweep)
		if r.Unsupported != "" {
			fmt.Printf("UNSUPPORTED %s: %s\n", fi.Key, r.Unsupported)
			continue
		}
		fmt.Printf("func %s: %d paths, %d obligations\n", fi.Key, r.Paths, len(r.Obs))
		obs = append(obs, r.Obs...)
		globals[fi.Key] = r.Globals
	}
	if fs.NArg() == 0 {
		for _, ln := range lib.LemmaOrder {
			obs = append(obs, lib.lemmaObs(lib.Lemmas[ln])...)
		}
	}
	start := time.Now()
	rs := p.dischargeAll(obs, globals)
	bad := 0
	agg := map[string][]*ObResult{}
	var keys []string
	for _, r := range rs {
		if _, ok := agg[r.Ob.Key]; !ok {
			keys = append(keys, r.Ob.Key)
		}
		agg[r.Ob.Key] = append(agg[r.Ob.Key], r)
	}
	for _, k := range keys {
		n, ok, maxT := 0, 0, 0.0
		for _, r := range agg[k] {
			n++
			if r.Discharged() {
				ok++
			}
			if r.Seconds > maxT {
				maxT = r.Seconds
			}
		}
		status := "ok  "
		if ok != n {
			status = "FAIL"
			bad++
		}
		fmt.Printf("%s %-60s %d/%d  max %.2fs\n", status, k, ok, n, maxT)
		if ok != n && *verbose {
			for _, r := range agg[k] {
				if !r.Discharged() {
					fmt.Printf("       path=%s status=%s solver=%s answers=%v\n       file=%s\n       clause=%s\n", r.Ob.Path, r.Status, r.Solver, r.Answers, r.File, r.Ob.Clause)
				}
			}
		}
	}
	fmt.Printf("%d obligations, %d keys, %d failing keys, %.1fs\n", len(rs), len(keys), bad, time.Since(start).Seconds())
	if bad > 0 {
		return 1
	}
	return 0
}


var _ = json.Marshal
var _ = strings.Join
