package main

import (
	"bytes"
	"fmt"
	"os"
	"os/exec"
	"path/filepath"
	"strings"
	"time"
)

// Witness is a concrete input for the real command-line tools, with the behaviour the property demands.
type Witness struct {
	Files  map[string]string `json:"files"`
	Links  map[string]string `json:"symlinks,omitempty"` // name -> link target (created after the files)
	Env    map[string]string `json:"env,omitempty"`
	RawEnv []string          `json:"raw_env,omitempty"` // environment entries passed verbatim (may lack "=")
	Cmd    []string          `json:"cmd"`    // first element: bkl | bkld | bkli | bklr
	Stdout *string           `json:"stdout"` // expected stdout (exact), if the property fixes it
	Exit   *int              `json:"exit"`   // expected exit status, if the property fixes it
	Secs   int               `json:"timeout_s,omitempty"`
	Pre    []PreStep         `json:"pre,omitempty"` // commands run first, each saving its stdout as a file for the next
}

type PreStep struct {
	Cmd  []string `json:"cmd"`
	Save string   `json:"save_stdout_as"`
}

type witnessResult struct {
	Ran      bool
	Violates bool
	Stdout   string
	Stderr   string
	Exit     int
	Note     string
}

var builtTools = map[string]string{}

// buildTool compiles one of the repository's commands from the working tree into a scratch directory.
func buildTool(scratch, name string) (string, error) {
	if p, ok := builtTools[name]; ok {
		return p, nil
	}
	out := filepath.Join(scratch, "bin-"+name)
	cmd := exec.Command("go", "build", "-o", out, "./cmd/"+name)
	cmd.Dir = repoDir
	cmd.Env = append(os.Environ(), "GOFLAGS=-mod=mod", "GOPROXY=off")
	if b, err := cmd.CombinedOutput(); err != nil {
		return "", fmt.Errorf("go build ./cmd/%s: %v: %s", name, err, b)
	}
	builtTools[name] = out
	return out, nil
}

// runWitness runs the real tool on the witness and compares with the demanded behaviour.
func runWitness(scratch string, w *Witness, idx int) witnessResult {
	if len(w.Cmd) == 0 {
		return witnessResult{Note: "no command"}
	}
	bin, err := buildTool(scratch, w.Cmd[0])
	if err != nil {
		return witnessResult{Note: err.Error()}
	}
	dir := filepath.Join(scratch, fmt.Sprintf("w%d", idx))
	os.MkdirAll(dir, 0o755)
	for name, content := range w.Files {
		p := filepath.Join(dir, name)
		os.MkdirAll(filepath.Dir(p), 0o755)
		os.WriteFile(p, []byte(content), 0o644)
	}
	for name, target := range w.Links {
		p := filepath.Join(dir, name)
		os.MkdirAll(filepath.Dir(p), 0o755)
		os.Remove(p)
		os.Symlink(target, p)
	}
	secs := w.Secs
	if secs == 0 {
		secs = 20
	}
	for _, ps := range w.Pre {
		pb, err := buildTool(scratch, ps.Cmd[0])
		if err != nil {
			return witnessResult{Note: err.Error()}
		}
		pc := exec.Command(pb, ps.Cmd[1:]...)
		pc.Dir = dir
		pc.Env = []string{"PATH=/usr/bin:/bin", "HOME=" + dir}
		out, _ := pc.Output()
		os.WriteFile(filepath.Join(dir, ps.Save), out, 0o644)
	}
	cmd := exec.Command(bin, w.Cmd[1:]...)
	cmd.Dir = dir
	cmd.Env = []string{"PATH=/usr/bin:/bin", "HOME=" + dir}
	for k, v := range w.Env {
		cmd.Env = append(cmd.Env, k+"="+v)
	}
	cmd.Env = append(cmd.Env, w.RawEnv...)
	var so, se bytes.Buffer
	cmd.Stdout, cmd.Stderr = &so, &se
	done := make(chan error, 1)
	cmd.Start()
	go func() { done <- cmd.Wait() }()
	res := witnessResult{Ran: true}
	select {
	case err := <-done:
		if ee, ok := err.(*exec.ExitError); ok {
			res.Exit = ee.ExitCode()
		} else if err != nil {
			res.Exit = -1
		}
	case <-time.After(time.Duration(secs) * time.Second):
		cmd.Process.Kill()
		res.Exit = -2
		res.Note = "timeout"
	}
	res.Stdout, res.Stderr = so.String(), se.String()
	if len(res.Stderr) > 600 {
		res.Stderr = res.Stderr[:600]
	}
	if w.Exit != nil && res.Exit != *w.Exit {
		res.Violates = true
	}
	if w.Stdout != nil && strings.TrimSpace(res.Stdout) != strings.TrimSpace(*w.Stdout) {
		res.Violates = true
	}
	return res
}
