package main

import (
	"fmt"
	"go/ast"
	"go/token"
	"go/types"
	"sort"
	"strings"
)

type loopInfo struct {
	key   string // "1" or "filterList#1/1"
	spec  *LoopSpec
	pos   token.Pos
}

func (e *Exec) loopSpecFor(node ast.Node, ctx *Ctx) *loopInfo {
	fr := ctx.frame
	n := 0
	if fr.loopOrd != nil {
		n = fr.loopOrd[node]
	}
	li := &loopInfo{key: fr.loopKey + itoa(n), pos: node.Pos()}
	if c := e.fi.Contract; c != nil {
		if sp, ok := c.Loops[li.key]; ok {
			li.spec = sp
			return li
		}
	}
	if fr.loopKey != "" && fr.contract != nil {
		if sp, ok := fr.contract.Loops[itoa(n)]; ok {
			li.spec = sp
			return li
		}
	}
	li.spec = &LoopSpec{}
	return li
}

// assignedVars collects the variables assigned anywhere under the given nodes (including nested function literals
// and the literals bound to function-typed parameters that are called there).
func (e *Exec) assignedVars(st *State, info *types.Info, nodes ...ast.Node) (map[*types.Var]bool, map[string]types.Type) {
	e.directAssigned = map[*types.Var]bool{}
	vars := map[*types.Var]bool{}
	fields := map[string]types.Type{}
	seen := map[ast.Node]bool{}
	var walk func(n ast.Node, info *types.Info)
	base := func(x ast.Expr, info *types.Info) {
		direct := true
		defer func() {}()
		for {
			switch y := x.(type) {
			case *ast.ParenExpr:
				x = y.X
				continue
			case *ast.IndexExpr:
				x = y.X
				direct = false
				continue
			case *ast.SelectorExpr:
				if sel, ok := info.Selections[y]; ok && sel.Kind() == types.FieldVal {
					if _, isPtr := info.TypeOf(y.X).Underlying().(*types.Pointer); isPtr {
						fields[fieldKey(info.TypeOf(y.X), y.Sel.Name)] = info.TypeOf(y)
					}
				}
				return
			case *ast.Ident:
				if v, ok := info.ObjectOf(y).(*types.Var); ok {
					vars[v] = true
					if direct {
						e.directAssigned[v] = true
					}
				}
				return
			default:
				return
			}
		}
	}
	walk = func(n ast.Node, info *types.Info) {
		if n == nil || seen[n] {
			return
		}
		seen[n] = true
		ast.Inspect(n, func(x ast.Node) bool {
			switch s := x.(type) {
			case *ast.AssignStmt:
				for _, l := range s.Lhs {
					base(l, info)
				}
			case *ast.IncDecStmt:
				base(s.X, info)
			case *ast.RangeStmt:
				if s.Tok == token.ASSIGN {
					if s.Key != nil {
						base(s.Key, info)
					}
					if s.Value != nil {
						base(s.Value, info)
					}
				}
			case *ast.CallExpr:
				if id, ok := s.Fun.(*ast.Ident); ok {
					if v, ok := info.ObjectOf(id).(*types.Var); ok {
						if lit, ok := st.closures[v]; ok {
							walk(lit, e.closureInfo[lit])
						}
					}
					if b, ok := info.Uses[id].(*types.Builtin); ok && b.Name() == "delete" && len(s.Args) > 0 {
						base(&ast.IndexExpr{X: s.Args[0]}, info)
					}
				}
				if callee := e.calleeOf(s, info); callee != nil {
					if inlinable(callee) {
						walk(callee.Decl.Body, callee.Pkg.TypesInfo)
					}
					for k, t := range e.w.modset(callee) {
						fields[k] = t
					}
				}
			}
			return true
		})
	}
	for _, n := range nodes {
		walk(n, info)
	}
	return vars, fields
}

// havoc replaces every variable modified by the loop (and every heap field it may write) by a fresh constant.
func (e *Exec) havoc(st *State, vars map[*types.Var]bool, fields map[string]types.Type) {
	var vs []*types.Var
	for v := range vars {
		if _, ok := st.env[v]; ok {
			vs = append(vs, v)
		}
	}
	sort.Slice(vs, func(i, j int) bool { return vs[i].Pos() < vs[j].Pos() })
	for _, v := range vs {
		st.ghosts[v.Name()+"@loop"] = st.env[v]
		t := e.fresh(st, v.Name(), sortOf(v.Type()))
		st.env[v] = t
		if inv := typeInv(t, v.Type()); inv != "" {
			st.pc = append(st.pc, inv)
		}
		if st.nonNil[v] && !e.directAssigned[v] {
			// a non-nil map that the loop only index-assigns / deletes from stays non-nil
			st.pc = append(st.pc, "((_ is VMap) "+t+")")
		} else {
			delete(st.nonNil, v)
		}
	}
	{
		// allocations inside the loop move the boundary up
		st.ghosts["allocTop@loop"] = st.top
		nt := e.fresh(st, "allocTop", "Int")
		st.pc = append(st.pc, "(>= "+nt+" "+st.top+")")
		st.top = nt
	}
	var fs []string
	for k := range fields {
		fs = append(fs, k)
	}
	sort.Strings(fs)
	// ghost state of buffers and encoders is loop-carried too
	if len(st.bufs) > 0 || len(st.encs) > 0 {
		var hs []string
		for h := range st.bufs {
			hs = append(hs, h)
		}
		sort.Strings(hs)
		for _, h := range hs {
			st.bufs[h] = e.fresh(st, "content", "String")
		}
		var es []string
		for h := range st.encs {
			es = append(es, h)
		}
		sort.Strings(es)
		for _, h := range es {
			en := st.encs[h]
			cnt := e.fresh(st, "encCount", "Int")
			st.pc = append(st.pc, "(>= "+cnt+" 0)")
			st.encs[h] = [3]string{en[0], en[1], cnt}
		}
	}
	ownW := e.w.ownWrites(e.fi)
	for _, k := range fs {
		e.heapArr(st, k, fields[k])
		st.heap[k] = e.fresh(st, "H_"+sanitize(k), "(Array Int "+sortOf(fields[k])+")")
		if len(ownW[k]) == 0 && st.heap0[k] != "" && e.inlineDepth == 0 {
			// this function writes the field only on objects it allocates (ownership/frame pass): objects that existed
			// at function entry keep it through every iteration
			st.pc = append(st.pc, "(forall ((r Int)) (! (=> (< r "+st.top0+") (= (select "+st.heap[k]+" r) (select "+st.heap0[k]+" r))) :pattern ((select "+st.heap[k]+" r))))")
		}
	}
}

func (e *Exec) checkTransitions(st *State, li *loopInfo, ctx *Ctx) {
	for i, tr := range li.spec.Transitions {
		goal := e.clause(tr.X, st, nil, li.pos+1, e.info(ctx), clauseInv)
		e.emit(st, "inv-step", fmt.Sprintf("loop[%s].transition[%d]", li.key, i+1), goal, tr.Tags, li.pos, tr.Src)
	}
}

// pushErrBase / popErrBase bracket a loop: the calls recorded at the loop head are the base against which an iteration's
// new calls are compared.
func pushErrBase(st *State) {
	base := map[string]string{}
	for k, v := range st.callErrs {
		base[k] = v
	}
	st.errBases = append(st.errBases, base)
}

func popErrBase(st *State) {
	if n := len(st.errBases); n > 0 {
		st.errBases = st.errBases[:n-1]
	}
}

// checkIterationErrors: `propagates`: a call that failed during this iteration must have ended the function; an
// iteration that completes (falls through or continues) after a failed call has dropped the error.
func (e *Exec) checkIterationErrors(st *State, li *loopInfo, ctx *Ctx) {
	c := e.fi.Contract
	// (also for the loops of helpers that are executed through their bodies - filterList, filterMap: an iteration of theirs
	// is an iteration of this function)
	// library models (verifReplaceAllStringFunc) are exempt: the interpolation callback latches its first failure and goes on,
	// and the failure is reported after the loop - that is proved by the invariants of that loop.
	if c == nil || len(c.Propagates) == 0 || len(st.errBases) == 0 || (ctx.frame.fi != e.fi && strings.HasPrefix(ctx.frame.fi.Name, "verif")) {
		return
	}
	base := st.errBases[len(st.errBases)-1]
	all := len(c.Propagates) == 1 && c.Propagates[0] == "all"
	var sites []string
	for k := range st.callErrs {
		sites = append(sites, k)
	}
	sort.Strings(sites)
	for _, k := range sites {
		et := st.callErrs[k]
		if base[k] == et {
			continue
		}
		site := strings.TrimSuffix(strings.TrimPrefix(k, "call["), "]")
		if !all && !contains(c.Propagates, site) {
			continue
		}
		e.emit(st, "prop", fmt.Sprintf("loop[%s].propagates[%s]", li.key, site), "(not (isErr "+et+"))", c.PropagatesTags, li.pos,
			"an iteration completes only if "+site+" succeeded (its failure must end "+e.fi.Name+")")
	}
}

func (e *Exec) checkInvs(st *State, li *loopInfo, phase string, ctx *Ctx) {
	if phase == "step" {
		e.checkTransitions(st, li, ctx)
		e.checkIterationErrors(st, li, ctx)
	}
	for i, inv := range li.spec.Invariants {
		goal, ok := e.invClause(inv, i, st, li, ctx)
		if !ok {
			continue
		}
		e.emit(st, "inv-"+phase, fmt.Sprintf("loop[%s].inv[%d].%s", li.key, i+1, phase), goal, inv.Tags, li.pos, inv.Src)
	}
}

func (e *Exec) assumeInvs(st *State, li *loopInfo, ctx *Ctx) {
	for i, inv := range li.spec.Invariants {
		if goal, ok := e.invClause(inv, i, st, li, ctx); ok {
			st.assumeTagged(goal, onlyOwnTags(inv.Tags))
		}
	}
}

// dropInvs: loop invariants left out of a run ("<func key>.loop[<loop>].inv[<n>]"). An invariant without a property tag
// is a proof hint, not a claim: if it no longer holds (or names a local that no longer exists) after a change, the
// function is verified again WITHOUT it - neither assumed nor checked - and only if everything else is still
// discharged does the check stay quiet (check.go, lapse). Tagged invariants carry a property and never lapse.
var dropInvs = map[string]bool{}

func invKey(fn string, li *loopInfo, i int) string {
	return fmt.Sprintf("%s.loop[%s].inv[%d]", fn, li.key, i+1)
}

func (e *Exec) invClause(inv *Clause, i int, st *State, li *loopInfo, ctx *Ctx) (goal string, ok bool) {
	k := invKey(e.fi.Key, li, i)
	if dropInvs[k] {
		return "", false
	}
	if len(inv.Tags) == 0 {
		defer func() {
			if r := recover(); r != nil {
				if u, isU := r.(unsupported); isU {
					if e.lapsed == nil {
						e.lapsed = map[string]string{}
					}
					e.lapsed[k] = u.what
					goal, ok = "", false
					return
				}
				panic(r)
			}
		}()
	}
	return e.clause(inv.X, st, nil, li.pos+1, e.info(ctx), clauseInv), true
}

func (e *Exec) setGhost(st *State, li *loopInfo, name, term string) {
	st.ghosts[name] = term
	st.ghosts[name+"_"+sanitize(li.key)] = term
}

// rangeKind describes how a range statement iterates.
type rangeKind int

const (
	rkMap rangeKind = iota // built-in map[string]any: arbitrary order (ghost visited)
	rkSortedMap            // sortedMap(m): ascending keys (ghost visited + done/rest over sortedKeys)
	rkList                 // []any
	rkSList                // []string
	rkRList                // []*T
	rkRMap                 // map[string]*T: arbitrary order
	rkInt                  // range n
	rkOpaque               // anything else: unknown number of iterations, unknown elements
)

// restoreGhosts gives the loop ghosts of an enclosing loop their values back when an inner loop is left.
func restoreGhosts(saved map[string]string, k func(*State)) func(*State) {
	return func(st *State) {
		for _, n := range []string{"visited", "done", "rest", "idx", "ranged", "visited'", "done'", "rest'", "allocTop@loop"} {
			if v, ok := saved[n]; ok {
				st.ghosts[n] = v
			} else {
				delete(st.ghosts, n)
			}
		}
		k(st)
	}
}

func (e *Exec) execRange(s *ast.RangeStmt, label string, st *State, ctx *Ctx, k func(*State)) {
	saved := map[string]string{}
	for n, v := range st.ghosts {
		saved[n] = v
	}
	k = restoreGhosts(saved, k)
	info := e.info(ctx)
	if cl, ok := s.X.(*ast.CompositeLit); ok {
		if _, isSlice := info.TypeOf(cl).Underlying().(*types.Slice); isSlice && len(cl.Elts) <= 4 && e.unrollLiteralRange(s, cl, label, st, ctx, k) {
			return
		}
	}
	li := e.loopSpecFor(s, ctx)
	t := info.TypeOf(s.X)
	kind := rkOpaque
	var coll string
	if call, ok := s.X.(*ast.CallExpr); ok {
		if callee := e.calleeOf(call, info); callee != nil && callee.Name == "sortedMap" && isTreeMap(info.TypeOf(call.Args[0])) {
			kind = rkSortedMap
			coll = e.eval(call.Args[0], st, ctx)
			e.note("sortedMap(m) is modelled by its assumed contract: every key once, in ascending order (slices.Sorted(maps.Keys(m)))")
		}
	}
	if kind == rkOpaque {
		switch {
		case isTreeMap(t):
			kind = rkMap
		case isTreeList(t):
			kind = rkList
		case isStringList(t):
			kind = rkSList
		case isRefList(t):
			kind = rkRList
		case isRefMap(t):
			kind = rkRMap
		default:
			if b, ok := t.Underlying().(*types.Basic); ok && b.Info()&types.IsInteger != 0 {
				kind = rkInt
			}
		}
		if id, ok := s.X.(*ast.Ident); ok && kind == rkOpaque && id.Name == "formatByExtension" {
			if v, ok := info.ObjectOf(id).(*types.Var); ok && v.Pkg() != nil && v.Parent() == v.Pkg().Scope() {
				// the format table: its keys are the names k with fmtByName(k) != 0 (fmtTable is fmtByName as an array)
				kind = rkRMap
				coll = "fmtTable"
				e.note("range over formatByExtension visits exactly the names k with fmtByName(k) != 0, in any order (definition of fmtByName; the table's content is pinned by the C05 format-table obligations)")
			}
		}
		if kind != rkOpaque && coll == "" {
			coll = e.eval(s.X, st, ctx)
		} else if kind == rkOpaque {
			if _, isCall := s.X.(*ast.CallExpr); !isCall {
				e.eval(s.X, st, ctx)
			}
			e.note(fmt.Sprintf("range over %s is modelled as an unknown number of iterations over unknown elements", types.TypeString(t, shortQual)))
		}
	}
	// the collection as a sequence (for ordered kinds)
	seq := ""
	cons, hd, tl, nilc, snoc, seqSort := "", "", "", "", "", ""
	switch kind {
	case rkSortedMap:
		seq = "(sortedKeys (mapOf " + coll + "))"
		cons, hd, tl, nilc, snoc, seqSort = "SCons", "shd", "stl", "SNil", "ssnoc", "SLst"
	case rkList:
		seq = "(ls " + coll + ")"
		cons, hd, tl, nilc, snoc, seqSort = "LCons", "hd", "tl", "LNil", "snoc", "Lst"
	case rkSList:
		seq = "(sitems " + coll + ")"
		cons, hd, tl, nilc, snoc, seqSort = "SCons", "shd", "stl", "SNil", "ssnoc", "SLst"
	case rkRList:
		seq = coll
		cons, hd, tl, nilc, snoc, seqSort = "RCons", "rhd", "rtl", "RNil", "rsnoc", "RLst"
	}
	_ = cons
	_ = hd
	_ = tl
	hasVisited := kind == rkMap || kind == rkSortedMap || kind == rkRMap

	// 1. invariants hold on entry
	init := st.clone()
	if coll != "" {
		e.setGhost(init, li, "ranged", coll)
	}
	if hasVisited {
		e.setGhost(init, li, "visited", "emptySet")
	}
	if seq != "" {
		e.setGhost(init, li, "done", nilc)
		e.setGhost(init, li, "rest", seq)
		e.setGhost(init, li, "idx", "0")
	}
	// `for i := range n` is `for i := 0; i < n; i++`: at the loop head the counter is the number of completed iterations,
	// so invariants may mention it exactly as they would for the three-clause form
	var intKey *types.Var
	if kind == rkInt && s.Tok == token.DEFINE {
		if id, ok := s.Key.(*ast.Ident); ok && id.Name != "_" {
			intKey, _ = info.Defs[id].(*types.Var)
		}
	}
	if kind == rkInt {
		e.setGhost(init, li, "idx", "0")
		if intKey != nil {
			init.env[intKey] = "0"
			init.ghosts[intKey.Name()+"@loop"] = "0"
		}
	}
	vars, fields := e.assignedVars(st, info, s.Body)
	for v := range vars {
		if _, ok := init.env[v]; ok {
			init.ghosts[v.Name()+"@loop"] = init.env[v]
		}
	}
	init.ghosts["allocTop@loop"] = init.top
	e.checkInvs(init, li, "init", ctx)

	// 2. arbitrary iteration: havoc, assume invariants
	head := st.clone()
	pushErrBase(head)
	e.havoc(head, vars, fields)
	if coll != "" {
		e.setGhost(head, li, "ranged", coll)
	}
	var visited, done, rest, idx string
	if hasVisited {
		visited = e.fresh(head, "visited", "(Array String Bool)")
		e.setGhost(head, li, "visited", visited)
	}
	if seq != "" {
		done = e.fresh(head, "done", seqSort)
		rest = e.fresh(head, "rest", seqSort)
		idx = e.fresh(head, "idx", "Int")
		e.setGhost(head, li, "done", done)
		e.setGhost(head, li, "rest", rest)
		e.setGhost(head, li, "idx", idx)
		app := map[string]string{"Lst": "app", "SLst": "sapp", "RLst": "rapp"}[seqSort]
		ln := map[string]string{"Lst": "llen", "SLst": "sllen", "RLst": "rllen"}[seqSort]
		head.pc = append(head.pc, "(= ("+app+" "+done+" "+rest+") "+seq+")", "(= "+idx+" ("+ln+" "+done+"))")
	}
	if kind == rkInt {
		idx = e.fresh(head, "idx", "Int")
		e.setGhost(head, li, "idx", idx)
		head.pc = append(head.pc, "(<= 0 "+idx+")")
		if intKey != nil {
			head.env[intKey] = idx
			head.ghosts[intKey.Name()+"@loop"] = "0"
			head.ghosts[intKey.Name()+"@iter"] = idx
		}
	}
	switch kind {
	case rkMap, rkSortedMap:
		// schema invariant (holds by construction): only present keys are ever visited
		head.pc = append(head.pc, "(forall ((j String)) (=> (select "+visited+" j) (not (= (select (mapOf "+coll+") j) VAbsent))))")
	case rkRMap:
		head.pc = append(head.pc, "(forall ((j String)) (=> (select "+visited+" j) (not (= (select "+coll+" j) 0))))")
	}
	if kind == rkSortedMap {
		// link between the ghost set and the ghost sequence (part of the assumed sortedMap contract)
		head.pc = append(head.pc,
			"(forall ((j String)) (! (= (select "+visited+" j) (smem j "+done+")) :pattern ((select "+visited+" j))))",
			"(forall ((j String)) (! (=> (smem j "+rest+") (not (= (select (mapOf "+coll+") j) VAbsent))) :pattern ((smem j "+rest+"))))",
			"(sortedFrom "+done+" "+rest+")")
	}
	e.assumeInvs(head, li, ctx)
	for v := range vars {
		if t, ok := head.env[v]; ok {
			head.ghosts[v.Name()+"@iter"] = t
		}
	}

	// 3a. one more iteration
	body := head.clone()
	body.path = append(body.path, fmt.Sprintf("L%sit", sanitize(li.key)))
	var keyT, valT string
	switch kind {
	case rkMap, rkRMap:
		kk := e.fresh(body, "k", "String")
		sel := "(select (mapOf " + coll + ") " + kk + ")"
		absent := "VAbsent"
		if kind == rkRMap {
			sel = "(select " + coll + " " + kk + ")"
			absent = "0"
		}
		body.pc = append(body.pc, "(not (= "+sel+" "+absent+"))", "(not (select "+visited+" "+kk+"))")
		keyT, valT = kk, sel
		e.setGhost(body, li, "visited'", "(store "+visited+" "+kk+" true)")
	case rkSortedMap:
		kk := e.fresh(body, "k", "String")
		rest2 := e.fresh(body, "rest", seqSort)
		body.pc = append(body.pc, "(= "+rest+" (SCons "+kk+" "+rest2+"))")
		sel := "(select (mapOf " + coll + ") " + kk + ")"
		body.pc = append(body.pc, "(not (= "+sel+" VAbsent))", "(not (select "+visited+" "+kk+"))")
		keyT, valT = kk, sel
		e.setGhost(body, li, "visited'", "(store "+visited+" "+kk+" true)")
		e.setGhost(body, li, "done'", "(ssnoc "+done+" "+kk+")")
		e.setGhost(body, li, "rest'", rest2)
	case rkList, rkSList, rkRList:
		es := map[string]string{"Lst": "Val", "SLst": "String", "RLst": "Int"}[seqSort]
		v := e.fresh(body, "elem", es)
		rest2 := e.fresh(body, "rest", seqSort)
		body.pc = append(body.pc, "(= "+rest+" ("+cons+" "+v+" "+rest2+"))")
		if es == "Val" {
			body.pc = append(body.pc, "(not (= "+v+" VAbsent))")
		}
		if es == "Int" {
			e.note("slices of pointers are assumed to hold no nil entries (API misuse otherwise)")
			body.pc = append(body.pc, "(not (= "+v+" 0))")
		}
		keyT, valT = idx, v
		e.setGhost(body, li, "elem", v) // the element of this iteration (the range variable may be reassigned in the body)
		e.setGhost(body, li, "done'", "("+snoc+" "+done+" "+v+")")
		e.setGhost(body, li, "rest'", rest2)
	case rkInt:
		body.pc = append(body.pc, "(< "+idx+" "+coll+")")
		keyT = idx
	case rkOpaque:
		if s.Key != nil {
			if kt := e.lhsType(s.Key, ctx); kt != nil {
				keyT = e.fresh(body, "k", sortOf(kt))
				if inv := typeInv(keyT, kt); inv != "" {
					body.pc = append(body.pc, inv)
				}
			}
		}
		if s.Value != nil {
			if vt := e.lhsType(s.Value, ctx); vt != nil {
				valT = e.fresh(body, "v", sortOf(vt))
				if inv := typeInv(valT, vt); inv != "" {
					body.pc = append(body.pc, inv)
				}
			}
		}
	}
	bindLoopVar := func(x ast.Expr, term string, st *State) {
		if x == nil || term == "" {
			return
		}
		id, ok := x.(*ast.Ident)
		if !ok {
			e.unsupported(x.Pos(), "range variable %T", x)
		}
		if id.Name == "_" {
			return
		}
		v, _ := info.ObjectOf(id).(*types.Var)
		if v != nil {
			st.env[v] = term
		}
	}
	bindLoopVar(s.Key, keyT, body)
	bindLoopVar(s.Value, valT, body)
	nextVisited, nextDone, nextRest := body.ghosts["visited'"], body.ghosts["done'"], body.ghosts["rest'"]
	endIter := func(st2 *State) {
		// advance the ghosts, then the invariants must hold again (the captured values are used: a labelled
		// `continue` may arrive here from inside an inner loop whose own ghosts are still in the state)
		nx := st2.clone()
		for n, v := range saved {
			if strings.HasSuffix(n, "@loop") || strings.HasSuffix(n, "@iter") {
				continue
			}
			_ = v
		}
		if hasVisited {
			e.setGhost(nx, li, "visited", nextVisited)
		}
		if seq != "" {
			e.setGhost(nx, li, "done", nextDone)
			e.setGhost(nx, li, "rest", nextRest)
			e.setGhost(nx, li, "idx", "(+ "+idx+" 1)")
		}
		for n, v := range head.ghosts {
			if strings.HasSuffix(n, "@loop") || strings.HasSuffix(n, "@iter") {
				nx.ghosts[n] = v
			}
		}
		if kind == rkInt {
			e.setGhost(nx, li, "idx", "(+ "+idx+" 1)")
			if intKey != nil {
				nx.env[intKey] = "(+ " + idx + " 1)"
			}
		}
		if idx != "" {
			nx.ghosts["idx@iter"] = idx // the index of the iteration that just ended (for transition clauses)
		}
		e.checkInvs(nx, li, "step", ctx)
	}
	lctx := ctx.with(label, func(st2 *State) { popErrBase(st2); k(st2) }, endIter)
	e.execBlock(s.Body.List, body, lctx, endIter)

	// 3b. loop exit
	exit := head.clone()
	popErrBase(exit)
	exit.path = append(exit.path, fmt.Sprintf("L%sx", sanitize(li.key)))
	switch kind {
	case rkMap:
		exit.pc = append(exit.pc, "(forall ((j String)) (=> (not (= (select (mapOf "+coll+") j) VAbsent)) (select "+visited+" j)))")
	case rkRMap:
		exit.pc = append(exit.pc, "(forall ((j String)) (=> (not (= (select "+coll+" j) 0)) (select "+visited+" j)))")
	case rkSortedMap:
		exit.pc = append(exit.pc, "(= "+rest+" SNil)", "(= "+done+" "+seq+")",
			"(forall ((j String)) (=> (not (= (select (mapOf "+coll+") j) VAbsent)) (select "+visited+" j)))")
	case rkList, rkSList, rkRList:
		exit.pc = append(exit.pc, "(= "+rest+" "+nilc+")", "(= "+done+" "+seq+")")
	case rkInt:
		exit.pc = append(exit.pc, "(>= "+idx+" "+coll+")")
	}
	k(exit)
}

func (e *Exec) execFor(s *ast.ForStmt, label string, st *State, ctx *Ctx, k func(*State)) {
	saved := map[string]string{}
	for n, v := range st.ghosts {
		saved[n] = v
	}
	k = restoreGhosts(saved, k)
	info := e.info(ctx)
	li := e.loopSpecFor(s, ctx)
	run := func(st *State) {
		init := st.clone()
		nodes := []ast.Node{s.Body}
		if s.Post != nil {
			nodes = append(nodes, s.Post)
		}
		vars, fields := e.assignedVars(st, info, nodes...)
		for v := range vars {
			if _, ok := init.env[v]; ok {
				init.ghosts[v.Name()+"@loop"] = init.env[v]
			}
		}
		init.ghosts["allocTop@loop"] = init.top
		e.checkInvs(init, li, "init", ctx)
		head := st.clone()
		pushErrBase(head)
		e.havoc(head, vars, fields)
		if iv, up := e.countingVar(s, vars, info); iv != nil {
			// syntactic fact about counting loops: the counter never moves back past its initial value
			if t0, ok := head.ghosts[iv.Name()+"@loop"]; ok {
				if up {
					head.pc = append(head.pc, "(>= "+head.env[iv]+" "+t0+")")
				} else {
					head.pc = append(head.pc, "(<= "+head.env[iv]+" "+t0+")")
				}
			}
		}
		e.assumeInvs(head, li, ctx)
		for v := range vars {
			if t, ok := head.env[v]; ok {
				head.ghosts[v.Name()+"@iter"] = t
			}
		}
		cond := "true"
		if s.Cond != nil {
			cond = e.eval(s.Cond, head, ctx)
		}
		body := e.branch(head, cond, fmt.Sprintf("L%sit", sanitize(li.key)))
		var measure0 []string
		for _, d := range li.spec.Decreases {
			measure0 = append(measure0, e.clause(d, body, nil, li.pos+1, info, clauseInv))
		}
		endIter := func(st2 *State) {
			fin := func(st3 *State) {
				e.checkInvs(st3, li, "step", ctx)
				if len(measure0) > 0 {
					var m1 []string
					for _, d := range li.spec.Decreases {
						m1 = append(m1, e.clause(d, st3, nil, li.pos+1, info, clauseInv))
					}
					e.emit(st3, "term", fmt.Sprintf("loop[%s].decreases", li.key), lexLess(m1, measure0), []string{"C08"}, li.pos, "loop measure decreases")
				}
			}
			if s.Post != nil {
				e.execStmt(s.Post, st2.clone(), ctx, fin)
			} else {
				fin(st2)
			}
		}
		if len(measure0) == 0 && e.sweep && e.countingLoop(s, vars, info) {
			e.note("counting loops (i from a to b by a constant step, bound and counter not written in the body) terminate: decided syntactically")
		} else if len(measure0) == 0 && e.sweep {
			// a for-loop without a measure: termination is not established
			e.emit(head, "term", fmt.Sprintf("loop[%s].decreases", li.key), "false", []string{"C08"}, li.pos, "for-loop has no decreases clause")
		}
		lctx := ctx.with(label, func(st2 *State) { popErrBase(st2); k(st2) }, endIter)
		e.execBlock(s.Body.List, body, lctx, endIter)
		if s.Cond != nil {
			ex := e.branch(head, "(not "+cond+")", fmt.Sprintf("L%sx", sanitize(li.key)))
			popErrBase(ex)
			k(ex)
		}
	}
	if s.Init != nil {
		e.execStmt(s.Init, st, ctx, run)
	} else {
		run(st)
	}
}

// lexLess states that measure a is lexicographically smaller than measure b and bounded below by 0.
func lexLess(a, b []string) string {
	if len(a) == 0 || len(a) != len(b) {
		return "false"
	}
	var alts []string
	for i := range a {
		var conj []string
		for j := 0; j < i; j++ {
			conj = append(conj, "(<= "+a[j]+" "+b[j]+")")
		}
		conj = append(conj, "(< "+a[i]+" "+b[i]+")", "(>= "+b[i]+" 0)")
		alts = append(alts, "(and "+strings.Join(conj, " ")+")")
	}
	if len(alts) == 1 {
		return alts[0]
	}
	return "(or " + strings.Join(alts, " ") + ")"
}

// countingLoop recognises `for i := a; i < n; i++` (and `i+1 < n`, `i += c`, and the descending `i >= c; i--`) where
// neither i nor any variable of the bound is assigned in the body: such a loop terminates.
func (e *Exec) countingLoop(s *ast.ForStmt, assigned map[*types.Var]bool, info *types.Info) bool {
	iv, _ := e.countingVar(s, assigned, info)
	return iv != nil
}

func (e *Exec) countingVar(s *ast.ForStmt, assigned map[*types.Var]bool, info *types.Info) (*types.Var, bool) {
	v, up, ok := e.countingVar1(s, assigned, info)
	if !ok {
		return nil, false
	}
	return v, up
}

func (e *Exec) countingVar1(s *ast.ForStmt, assigned map[*types.Var]bool, info *types.Info) (*types.Var, bool, bool) {
	cond, ok := s.Cond.(*ast.BinaryExpr)
	if !ok || s.Post == nil {
		return nil, false, false
	}
	var iv *types.Var
	up := false
	switch p := s.Post.(type) {
	case *ast.IncDecStmt:
		id, ok := p.X.(*ast.Ident)
		if !ok {
			return nil, false, false
		}
		iv, _ = info.ObjectOf(id).(*types.Var)
		up = p.Tok == token.INC
	case *ast.AssignStmt:
		if len(p.Lhs) != 1 || (p.Tok != token.ADD_ASSIGN && p.Tok != token.SUB_ASSIGN) {
			return nil, false, false
		}
		id, ok := p.Lhs[0].(*ast.Ident)
		if !ok {
			return nil, false, false
		}
		tv := info.Types[p.Rhs[0]]
		if tv.Value == nil || tv.Value.String() == "0" || tv.Value.String()[0] == '-' {
			return nil, false, false
		}
		iv, _ = info.ObjectOf(id).(*types.Var)
		up = p.Tok == token.ADD_ASSIGN
	default:
		return nil, false, false
	}
	if iv == nil {
		return nil, false, false
	}
	// the counter must not be assigned in the body (it is assigned in Post, which assignedVars includes: recompute for the body only)
	bodyVars, _ := e.assignedVars(&State{closures: map[*types.Var]*ast.FuncLit{}}, info, s.Body)
	if bodyVars[iv] {
		return nil, false, false
	}
	mentions := func(x ast.Expr, v *types.Var) bool {
		found := false
		ast.Inspect(x, func(n ast.Node) bool {
			if id, ok := n.(*ast.Ident); ok && info.ObjectOf(id) == v {
				found = true
			}
			return true
		})
		return found //
	}
	stable := func(x ast.Expr) bool {
		okk := true
		ast.Inspect(x, func(n ast.Node) bool {
			switch y := n.(type) {
			case *ast.Ident:
				if v, ok := info.ObjectOf(y).(*types.Var); ok && bodyVars[v] {
					okk = false
				}
			case *ast.CallExpr:
				if id, ok := y.Fun.(*ast.Ident); !ok || id.Name != "len" {
					okk = false
				}
			}
			return true
		})
		return okk
	}
	switch cond.Op {
	case token.LSS, token.LEQ:
		return iv, up, up && mentions(cond.X, iv) && !mentions(cond.Y, iv) && stable(cond.Y)
	case token.GTR, token.GEQ:
		return iv, up, !up && mentions(cond.X, iv) && !mentions(cond.Y, iv) && stable(cond.Y)
	}
	return nil, false, false
}

// unrollLiteralRange executes `for i, x := range []T{e1, ..., en} { body }` (n <= 4, written as a literal) by running
// the body once per element, in order: no invariant is needed.
func (e *Exec) unrollLiteralRange(s *ast.RangeStmt, cl *ast.CompositeLit, label string, st *State, ctx *Ctx, k func(*State)) bool {
	info := e.info(ctx)
	for _, el := range cl.Elts {
		if _, isKV := el.(*ast.KeyValueExpr); isKV {
			return false
		}
	}
	elemT := info.TypeOf(cl).Underlying().(*types.Slice).Elem()
	var vals []string
	for _, el := range cl.Elts {
		vals = append(vals, e.evalTo(el, elemT, st, ctx))
	}
	var runFrom func(i int, st *State)
	runFrom = func(i int, st *State) {
		if i >= len(vals) {
			k(st)
			return
		}
		b := st.clone()
		b.path = append(b.path, fmt.Sprintf("U%d", i))
		if id, ok := s.Key.(*ast.Ident); ok && id.Name != "_" {
			if v, ok := info.ObjectOf(id).(*types.Var); ok {
				b.env[v] = itoa(i)
			}
		}
		if s.Value != nil {
			if id, ok := s.Value.(*ast.Ident); ok && id.Name != "_" {
				if v, ok := info.ObjectOf(id).(*types.Var); ok {
					b.env[v] = vals[i]
				}
			}
		}
		next := func(st2 *State) { runFrom(i+1, st2) }
		lctx := ctx.with(label, func(st2 *State) { k(st2) }, next)
		e.execBlock(s.Body.List, b, lctx, next)
	}
	runFrom(0, st)
	return true
}
