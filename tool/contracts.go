package main

import (
	"bufio"
	"fmt"
	"os"
	"regexp"
	"strconv"
	"strings"
)

// Clause is one contract clause: an SMT-LIB term over Go names and the spec library.
type Clause struct {
	Kind string // requires ensures invariant decreases
	X    *SX
	Tags []string // property ids, e.g. C01
	Follows bool  // [follows]: an ensures clause that is a consequence of the entry facts and the earlier ensures alone
	Src  string
	File string
	Line int
}

type LoopSpec struct {
	Invariants  []*Clause
	Transitions []*Clause // two-state facts about one iteration: X@iter is the value at the start of the iteration
	Decreases   []*SX
}

// FuncContract is the contract of one repository function, parsed from //@ comment lines.
type FuncContract struct {
	Pkg      string // package directory relative to the repo root ("." for the library)
	Name     string // "merge", "Parser.MergeDocument"
	Params   []string
	Results  []string
	Requires []*Clause
	Ensures  []*Clause
	Decr     []*SX
	Loops    map[string]*LoopSpec // "1", "2" own loops; "filterList#1/1" loops of inlined callees
	Modifies []string
	Consumes []string
	Mutates  []string
	Borrows  []string
	Inplace  []string
	FullProps    []string // properties named by a plain `property` line (callees are pulled into the cone)
	ShallowProps []string // properties for which only this function (not its callees) is in the cone
	Props    []string // properties whose ownership/frame/effects obligations this function carries
	Preserves bool // `preserves-existing`: no field of an object that existed before the call is changed (only fresh objects are written)
	Borrowed bool // results alias data the caller does not own (heap look-ups)
	Effects  []string
	Fresh    bool
	Trusted  bool // contract is assumed, body not verified (stated in evidence)
	Lemmas   []string
	Orders         [][2]string // `order A#i B#j`: the statement containing call site A#i precedes the one containing B#j
	Propagates     []string // `propagates G#n`: call sites whose failure must be reported by this function
	PropagatesTags []string
	FailsOnlyVia   bool     // `fails-only-through-calls`: the function has no failure of its own - it fails only on paths on which one of its calls failed
	FailsOnlyTags  []string
	File     string
	Line     int
	// `regexp <var>` blocks: a contract on a package-level compiled expression
	Regexp      bool
	LinesPred   string   // `lines <pred>`: the expression is (?m)^X$ and every string of X satisfies the spec predicate
	AcceptLines []string // `accepts "<s>"`: strings X must match
}

var (
	reRegexp = regexp.MustCompile(`^regexp\s+([A-Za-z0-9_]+)\s*$`)
	reFunc = regexp.MustCompile(`^func\s+([A-Za-z0-9_.]+)\s*\(([^)]*)\)\s*(?:\(([^)]*)\))?\s*(.*)$`)
	reTag  = regexp.MustCompile(`\[(C[0-9]{2,3}|follows)\]`)
	reLoop = regexp.MustCompile(`^loop\s+([0-9]+)`)
	reClosure = regexp.MustCompile(`^closure\s+([0-9]+)`)
	reAt   = regexp.MustCompile(`^at\s+call\s+([A-Za-z0-9_./#]+)`)
	reCall = regexp.MustCompile(`^call\s+([A-Za-z0-9_.]+)#([0-9]+)(?:\s+loop\s+([0-9]+))?`)
)

func splitNames(s string) []string {
	var out []string
	for _, p := range strings.Split(s, ",") {
		p = strings.TrimSpace(p)
		if p != "" {
			out = append(out, p)
		}
	}
	return out
}

// parseContractFile reads every //@ line of a file. pkgDir is the package directory key.
func parseContractFile(path, pkgDir string) ([]*FuncContract, error) {
	fh, err := os.Open(path)
	if err != nil {
		return nil, err
	}
	defer fh.Close()

	var out []*FuncContract
	var cur *FuncContract
	curLoop := ""
	var pendKind, pend string
	pendLine := 0

	flush := func() error {
		if pend == "" {
			return nil
		}
		text := pend
		kind := pendKind
		pend, pendKind = "", ""
		tags := []string{}
		follows := false
		for _, m := range reTag.FindAllStringSubmatch(text, -1) {
			if m[1] == "follows" {
				follows = true
				continue
			}
			tags = append(tags, m[1])
		}
		text = reTag.ReplaceAllString(text, "")
		xs, err := parseSX(text)
		if err != nil {
			return fmt.Errorf("%s:%d: %v", path, pendLine, err)
		}
		if cur == nil {
			return fmt.Errorf("%s:%d: clause outside func", path, pendLine)
		}
		if kind == "transition" {
			if curLoop == "" {
				return fmt.Errorf("%s:%d: transition outside loop block", path, pendLine)
			}
			for _, x := range xs {
				cur.Loops[curLoop].Transitions = append(cur.Loops[curLoop].Transitions, &Clause{Kind: kind, X: x, Tags: tags, Src: x.String(), File: path, Line: pendLine})
			}
			return nil
		}
		switch kind {
		case "requires", "ensures", "invariant":
			for _, x := range xs {
				c := &Clause{Kind: kind, X: x, Tags: tags, Follows: follows && kind == "ensures", Src: x.String(), File: path, Line: pendLine}
				switch kind {
				case "requires":
					cur.Requires = append(cur.Requires, c)
				case "ensures":
					cur.Ensures = append(cur.Ensures, c)
				case "invariant":
					if curLoop == "" {
						return fmt.Errorf("%s:%d: invariant outside loop/call block", path, pendLine)
					}
					cur.Loops[curLoop].Invariants = append(cur.Loops[curLoop].Invariants, c)
				}
			}
		case "decreases":
			if curLoop != "" {
				cur.Loops[curLoop].Decreases = append(cur.Loops[curLoop].Decreases, xs...)
			} else {
				cur.Decr = append(cur.Decr, xs...)
			}
		}
		return nil
	}

	sc := bufio.NewScanner(fh)
	sc.Buffer(make([]byte, 1<<20), 1<<20)
	ln := 0
	for sc.Scan() {
		ln++
		line := strings.TrimSpace(sc.Text())
		if !strings.HasPrefix(line, "//@") {
			continue
		}
		raw := strings.TrimPrefix(line, "//@")
		indent := len(raw) - len(strings.TrimLeft(raw, " \t"))
		line = strings.TrimSpace(raw)
		if i := strings.Index(line, " -- "); i >= 0 {
			line = strings.TrimSpace(line[:i])
		}
		if line == "" {
			continue
		}
		if pend != "" && !balanced(pend) {
			pend += " " + line
			continue
		}
		if err := flush(); err != nil {
			return nil, err
		}
		if m := reFunc.FindStringSubmatch(line); m != nil {
			cur = &FuncContract{Pkg: pkgDir, Name: m[1], Params: splitNames(m[2]), Results: splitNames(m[3]),
				Loops: map[string]*LoopSpec{}, File: path, Line: ln}
			for _, w := range strings.Fields(m[4]) {
				switch w {
				case "trusted":
					cur.Trusted = true
				case "fresh":
					cur.Fresh = true
				}
			}
			curLoop = ""
			out = append(out, cur)
			continue
		}
		if m := reRegexp.FindStringSubmatch(line); m != nil {
			cur = &FuncContract{Pkg: pkgDir, Name: "regexp:" + m[1], Regexp: true, Loops: map[string]*LoopSpec{}, File: path, Line: ln}
			curLoop = ""
			out = append(out, cur)
			continue
		}
		if cur == nil {
			return nil, fmt.Errorf("%s:%d: %q outside func", path, ln, line)
		}
		if m := reLoop.FindStringSubmatch(line); m != nil {
			curLoop = m[1]
			if cur.Loops[curLoop] == nil {
				cur.Loops[curLoop] = &LoopSpec{}
			}
			continue
		}
		if m := reClosure.FindStringSubmatch(line); m != nil {
			curLoop = "closure#" + m[1]
			if cur.Loops[curLoop] == nil {
				cur.Loops[curLoop] = &LoopSpec{}
			}
			continue
		}
		if m := reAt.FindStringSubmatch(line); m != nil {
			curLoop = "@" + m[1]
			if cur.Loops[curLoop] == nil {
				cur.Loops[curLoop] = &LoopSpec{}
			}
			continue
		}
		if m := reCall.FindStringSubmatch(line); m != nil {
			lp := m[3]
			if lp == "" {
				lp = "1"
			}
			curLoop = m[1] + "#" + m[2] + "/" + lp
			if cur.Loops[curLoop] == nil {
				cur.Loops[curLoop] = &LoopSpec{}
			}
			continue
		}
		kw := line
		rest := ""
		if i := strings.IndexAny(line, " \t"); i >= 0 {
			kw, rest = line[:i], strings.TrimSpace(line[i:])
		}
		switch kw {
		case "transition":
			pendKind, pend, pendLine = "transition", rest, ln
		case "assert", "guarantees":
			kw = "invariant" // site assertions are stored like invariants of the pseudo-loop "@<site>"
			pendKind, pend, pendLine = kw, rest, ln
		case "requires", "ensures", "invariant", "decreases":
			if kw == "requires" || kw == "ensures" || (kw == "decreases" && indent <= 3) {
				curLoop = ""
			}
			pendKind, pend, pendLine = kw, rest, ln
		case "modifies":
			cur.Modifies = append(cur.Modifies, splitNames(rest)...)
			if len(splitNames(rest)) == 0 {
				cur.Modifies = append(cur.Modifies, "nothing")
			}
		case "consumes":
			cur.Consumes = append(cur.Consumes, splitNames(rest)...)
		case "mutates":
			cur.Mutates = append(cur.Mutates, splitNames(rest)...)
		case "borrows":
			cur.Borrows = append(cur.Borrows, splitNames(rest)...)
		case "property":
			// `property C20 shallow`: the function's own obligations count for the property, its callees are not pulled in
			if f := strings.Fields(rest); len(f) >= 2 && f[len(f)-1] == "shallow" {
				for _, n := range splitNames(strings.Join(f[:len(f)-1], " ")) {
					cur.Props = append(cur.Props, n)
					cur.ShallowProps = append(cur.ShallowProps, n)
				}
			} else {
				cur.Props = append(cur.Props, splitNames(rest)...)
				cur.FullProps = append(cur.FullProps, splitNames(rest)...)
			}
		case "inplace":
			cur.Inplace = append(cur.Inplace, splitNames(rest)...)
		case "borrowed":
			cur.Borrowed = true
		case "preserves-existing":
			cur.Preserves = true
		case "effects":
			cur.Effects = append(cur.Effects, splitNames(rest)...)
			if len(splitNames(rest)) == 0 {
				cur.Effects = append(cur.Effects, "none")
			}
		case "fresh":
			cur.Fresh = true
		case "trusted":
			cur.Trusted = true
		case "uses":
			cur.Lemmas = append(cur.Lemmas, splitNames(rest)...)
		case "order":
			f := strings.Fields(reTag.ReplaceAllString(rest, ""))
			if len(f) != 2 {
				return nil, fmt.Errorf("%s:%d: order wants two call sites", path, ln)
			}
			cur.Orders = append(cur.Orders, [2]string{f[0], f[1]})
		case "propagates":
			tags := []string{}
			for _, m := range reTag.FindAllStringSubmatch(rest, -1) {
				tags = append(tags, m[1])
			}
			rest = reTag.ReplaceAllString(rest, "")
			cur.Propagates = append(cur.Propagates, splitNames(rest)...)
			cur.PropagatesTags = append(cur.PropagatesTags, tags...)
		case "fails-only-through-calls":
			cur.FailsOnlyVia = true
			for _, m := range reTag.FindAllStringSubmatch(rest, -1) {
				cur.FailsOnlyTags = append(cur.FailsOnlyTags, m[1])
			}
		case "lines":
			cur.LinesPred = rest
		case "accepts":
			if u, err := strconv.Unquote(rest); err == nil {
				cur.AcceptLines = append(cur.AcceptLines, u)
			} else {
				return nil, fmt.Errorf("%s:%d: accepts wants a quoted Go string", path, ln)
			}
		default:
			return nil, fmt.Errorf("%s:%d: unknown clause keyword %q", path, ln, kw)
		}
	}
	if pend != "" && !balanced(pend) {
		return nil, fmt.Errorf("%s:%d: unbalanced clause", path, pendLine)
	}
	if err := flush(); err != nil {
		return nil, err
	}
	return out, sc.Err()
}

func itoa(i int) string { return strconv.Itoa(i) }
