//go:build verif

// Contracts for package bkl (comment-only; read by /verif/bin/bklverif, invisible to the compiler without -tags verif).
// Syntax: DESIGN.md §2.3. Clause bodies are SMT-LIB terms over parameter/result/local names and /verif/spec.
package bkl

// ------------------------------------------------------------------------------------------------- util.go

//@ func popMapValue(m, k) (found, val, rest)
//@   ensures (=> ((_ is VMap) m) ((_ is VMap) rest))                                [C08]   -- a function that returns a map never returns a nil map: callers store it and later layers write into it (a write to a nil map panics)
//@   ensures (= found (present (mapOf m) k))
//@   ensures (=> found (and (= val (select (mapOf m) k)) (= rest (VMap (minus (mapOf m) k)))))
//@   ensures (=> (not found) (and (= val VNil) (= rest m)))
//
//@ func toBool(a) (v, ok)
//@   ensures (= ok ((_ is VBool) a))
//@   ensures (=> ok (= v (bv a)))
//@   ensures (=> (not ok) (not v))
//
//@ func getMapBoolValue(m, k) (v, ok)
//@   ensures (= ok ((_ is VBool) (select (mapOf m) k)))
//@   ensures (=> ok (= v (bv (select (mapOf m) k))))
//@   ensures (=> (not ok) (not v))
//
//@ func hasMapBoolValue(m, k, v) (res)
//@   ensures (= res (= (select (mapOf m) k) (VBool v)))
//
//@ func popMapBoolValue(m, k, v) (found, rest)
//@   ensures (=> ((_ is VMap) m) ((_ is VMap) rest))                                [C08]
//@   ensures (= found (= (select (mapOf m) k) (VBool v)))
//@   ensures (=> found (= rest (VMap (minus (mapOf m) k))))
//@   ensures (=> (not found) (= rest m))
//
//@ func toString(a) (res)
//@   ensures (= res (ite ((_ is VStr) a) (sv a) ""))
//
//@ func popListString(l, v) (found, res)
//@   effects closure-write:found   -- the per-entry callback also records in found (the loop invariants of this contract speak about it)
//@   uses appNil, snocApp
//@   ensures (= found (memStr (ls l) v))
//@   ensures (= res (VList (removeStr (ls l) v)))
//@   call filterList#1
//@     invariant ((_ is VList) ret)
//@     invariant (= (app (ls ret) (removeStr rest v)) (removeStr (ls l) v))
//@     invariant (= (or found (memStr rest v)) (memStr (ls l) v))
//
//@ func hasListMapBoolValue(l, k, v) (res)
//@   ensures (= res (anyBoolKey (ls l) k v))
//@   loop 1
//@     invariant (= (anyBoolKey rest k v) (anyBoolKey (ls l) k v))
//
//@ func popListMapBoolValue(l, k, v) (found, res, err)
//@   propagates all   [C08]
//@   uses appNil, snocApp, noMarkerNoExtra
//@   ensures (= found (and (anyBoolKey (ls l) k v) (not (isErr err))))
//@   ensures (= (isErr err) (markerExtra (ls l) k v))
//@   ensures (=> (isErr err) (= err ErrExtraKeys))
//@   ensures (=> (not (isErr err)) (= res (VList (dropMarkers (ls l) k v))))
//@   call filterList#1
//@     invariant ((_ is VList) ret)
//@     invariant (= (markerExtra (ls l@pre) k v) (markerExtra rest k v))
//@     invariant (= (app (ls ret) (dropMarkers rest k v)) (dropMarkers (ls l@pre) k v))
//
//@ func deepClone(v) (res, err) trusted
//@   ensures (not (isErr err))
//@   ensures (= res v)

// ------------------------------------------------------------------------------------------------- match.go

//@ func match(obj, pat) (res)
//@   ensures (= res (matchS obj pat))                                              [C01] [C02] [C10]
//@   decreases (rank pat) 2
//
//@ func matchMap(obj, pat) (res)
//@   requires ((_ is VMap) pat)
//@   ensures (= res (matchS obj pat))                                              [C01] [C10]
//@   decreases (rank pat) (ite (= (select (mc pat) "$invert") (VBool true)) 1 0)
//@   loop 1
//@     invariant (forall ((j String)) (=> (select visited j) (and (not (= j "$merge")) (not (= j "$replace")) (not (= j "$encode")))))
//@   loop 2
//@     invariant (forall ((j String)) (=> (select visited j) (matchS (orNil (select (mc objMap) j)) (select (mc pat) j))))
//
//@ func matchList(obj, pat) (res)
//@   ensures (= res (and ((_ is VList) obj) (allMatchL (ls obj) (ls pat))))          [C01]
//@   decreases (rank pat) 1
//@   loop 1
//@     invariant (= (allMatchL (ls objList) rest) (allMatchL (ls objList) (ls pat)))
//
//@ func matchListSingle(obj, pat) (res)
//@   ensures (= res (anyMatchL (ls obj) pat))                                      [C01]
//@   decreases (rank pat) 3
//@   loop 1
//@     invariant (= (anyMatchL rest pat) (anyMatchL (ls obj) pat))

// ------------------------------------------------------------------------------------------------- merge.go

//@ func merge(dst, src) (res, err)
//@   propagates all   [C08]
//@   consumes dst, src
//@   ensures (= (isErr err) (mergeErr dst src))                                    [C01] [C06] [C15] [C16]
//@   ensures (=> (not (isErr err)) (= res (mergeF dst src)))                       [C01] [C06] [C15] [C16]
//@   decreases (+ (rank dst) (rank src)) 3
//
//@ func mergeMap(dst, src) (res, err)
//@   propagates all   [C08]
//@   consumes dst, src
//@   requires ((_ is VMap) dst)
//@   ensures (= (isErr err) (mergeErr dst src))                                    [C01]
//@   ensures (=> (not (isErr err)) (= res (mergeF dst src)))                       [C01]
//@   decreases (+ (rank dst) (rank src)) 2
//
//@ func mergeMapMap(dst, src) (res, err)
//@   propagates all   [C08]
//@   ensures (=> (not (isErr err)) ((_ is VMap) res))                               [C08]
//@   consumes dst, src
//@   requires ((_ is VMap) dst) ((_ is VMap) src)
//@   ensures (= (isErr err) (mergeErr dst src))                                    [C01]
//@   ensures (=> (not (isErr err)) (= res (mergeF dst src)))                       [C01]
//@   decreases (+ (rank dst) (rank src)) 1
//@   loop 1
//@     invariant ((_ is VMap) dst)
//@     invariant (forall ((j String)) (=> (select visited j)
//@                  (and (not (entErr (select (mc dst@pre) j) (select (mc src) j)))
//@                       (entRel (select (mc dst@pre) j) (select (mc src) j) (select (mc dst) j)))))
//@     invariant (forall ((j String)) (=> (not (select visited j)) (= (select (mc dst) j) (select (mc dst@pre) j))))
//
//@ func mergeList(dst, src) (res, err)
//@   propagates all   [C08]
//@   consumes dst, src
//@   ensures (= (isErr err) (mergeErr dst src))                                    [C01]
//@   ensures (=> (not (isErr err)) (= res (mergeF dst src)))                       [C01]
//@   decreases (+ (rank dst) (rank src)) 2
//
//@ func mergeListList(dst, src) (res, err)
//@   propagates all   [C08]
//@   consumes dst, src
//@   uses noMarkerNoExtra, noStrNoRemove
//@   ensures (= (isErr err) (llErr (ls dst) (ls src)))                             [C01] [C07] [C17]
//@   ensures (=> (not (isErr err)) (= res (VList (llF (ls dst) (ls src)))))        [C01] [C07] [C17]
//@   decreases (+ (rank dst) (rank src)) 1
//@   loop 1
//@     invariant ((_ is VList) dst)
//@     invariant (= (fold (ls dst) rest) (fold (ls dst@loop) (ls src)))
//@     invariant (= (foldErr (ls dst) rest) (foldErr (ls dst@loop) (ls src)))
//
//@ func mergeListDelete(obj, del) (res, err)
//@   effects closure-write:deleted   -- the per-entry callback also records in deleted (the loop invariants of this contract speak about it)
//@   propagates all   [C08]
//@   consumes obj
//@   uses appNil, snocApp
//@   ensures (= (isErr err) (not (anyMatchL (ls obj) del)))                        [C01]
//@   ensures (=> (not (isErr err)) (= res (VList (filterNot (ls obj) del))))       [C01]
//@   decreases (+ (rank obj) (rank del)) 0
//@   call filterList#1
//@     invariant ((_ is VList) ret)
//@     invariant (= (app (ls ret) (filterNot rest del)) (filterNot (ls l) del))
//@     invariant (= (or deleted (anyMatchL rest del)) (anyMatchL (ls l) del))
//
//@ func mergeListMatch(obj, m, v) (res, err)
//@   effects closure-write:found   -- the per-entry callback also records in found (the loop invariants of this contract speak about it)
//@   propagates all   [C08]
//@   consumes obj, v
//@   uses appNil, snocApp
//@   requires ((_ is VMap) v)
//@   ensures (= (isErr err)
//@              (or (and (present (mc v) "$value") (not (onlyKey (mc v) "$value")))
//@                  (not (anyMatchL (ls obj) m))
//@                  (mapMatchErr (ls obj) m (ite (present (mc v) "$value") (select (mc v) "$value") v))))   [C01]
//@   ensures (=> (not (isErr err))
//@              (= res (VList (mapMatch (ls obj) m (ite (present (mc v) "$value") (select (mc v) "$value") v)))))  [C01]
//@   decreases (+ (rank obj) (rank v)) 0
//@   call filterList#1
//@     invariant ((_ is VList) ret)
//@     invariant (= (app (ls ret) (mapMatch rest m val)) (mapMatch (ls l) m val))
//@     invariant (= (mapMatchErr rest m val) (mapMatchErr (ls l) m val))
//@     invariant (= (or found (anyMatchL rest m)) (anyMatchL (ls l) m))

// ------------------------------------------------------------------------------------------------- validate.go

//@ func validate(obj) (err)
//@   propagates all   [C08]
//@   ensures (=> (escV obj) (not (isErr err)))                                             [C06]
//@   ensures (= (isErr err) (not (noMarker obj)))                                  [C07] [C17]
//@   ensures (=> (isErr err) (or (= err ErrRequiredField) (= err ErrInvalidDirective)))
//@   decreases (rank obj) 1
//
//@ func validateMap(obj) (err)
//@   propagates all   [C08]
//@   ensures (=> (escV obj) (not (isErr err)))                                             [C06]
//@   requires ((_ is VMap) obj)
//@   ensures (= (isErr err) (not (noMarker obj)))                                  [C07]
//@   ensures (=> (isErr err) (or (= err ErrRequiredField) (= err ErrInvalidDirective)))
//@   decreases (rank obj) 0
//@   loop 1
//@     invariant (forall ((j String)) (=> (select visited j) (and (not (marker j)) (noMarker (select (mc obj) j)))))
//
//@ func validateList(obj) (err)
//@   propagates all   [C08]
//@   ensures (=> (escV obj) (not (isErr err)))                                             [C06]
//@   ensures (= (isErr err) (not (noMarker obj)))                                  [C07]
//@   ensures (=> (isErr err) (or (= err ErrRequiredField) (= err ErrInvalidDirective)))
//@   decreases (rank obj) 0
//@   loop 1
//@     invariant (= (noMarkerL rest) (noMarkerL (ls obj)))
//@     invariant (=> (escL (ls obj)) (escL rest))   [C06]
//
//@ func validateString(obj) (err)
//@   propagates all   [C08]
//@   ensures (= (isErr err) (marker obj))                                          [C07] [C17]
//@   ensures (=> (= obj "$required") (= err ErrRequiredField))                     [C07] [C17]
//@   ensures (=> (isErr err) (or (= err ErrRequiredField) (= err ErrInvalidDirective)))

// ------------------------------------------------------------------------------------------------- util.go (iteration helpers)

//@ func filterMap(m, filter) (res, err)
//@   propagates all   [C08]
//@   loop 2
//@     invariant ((_ is VMap) ret)
//@     invariant (forall ((j String)) (= (select (mc ret) j) (ite (select visited j) (select (mapOf m2) j) (select (mc ret@loop) j))))

// ------------------------------------------------------------------------------------------------- output.go

//@ func findOutputs(obj) (res, outs, err)
//@   propagates all   [C08]
//@   ensures (= (isErr err) (outBad obj true))
//@   ensures (=> (not (isErr err)) (= res (stripF obj)))                           [C11] [C06]
//@   ensures (=> (not (isErr err)) (= outs (VList (selF obj))))                    [C11] [C06]
//@   ensures (=> (escV obj) (and (not (isErr err)) (= res obj) (= outs (VList LNil))))       [C06]
//@   decreases (rank obj) 1
//
//@ func findOutputsMap(obj) (res, outs, err)
//@   propagates all   [C08]
//@   uses appNil, appAssoc, escNames
//@   requires ((_ is VMap) obj)
//@   ensures (= (isErr err) (outBad obj true))
//@   ensures (=> (not (isErr err)) (= res (stripF obj)))                           [C11]
//@   ensures (=> (not (isErr err)) (= outs (VList (selF obj))))                    [C11]
//@   ensures (=> (escV obj) (and (not (isErr err)) (= outs (VList LNil))))                    [C06]
//@   ensures (=> (escV obj) (and ((_ is VMap) res) (forall ((j String)) (= (select (mc res) j) (select (mc obj) j)))))   [C06]
//@   ensures (=> (escV obj) (= res obj))                                                      [C06] [follows]
//@   decreases (rank obj) 0
//@   loop 1
//@     invariant ((_ is VMap) ret) ((_ is VList) outs)
//@     invariant (forall ((j String)) (=> (select visited j) (= (select (mc ret) j) (stripF (select (mc obj) j)))))
//@     invariant (forall ((j String)) (=> (not (select visited j)) (= (select (mc ret) j) VAbsent)))
//@     invariant (= (app (ls outs) (selK (mc obj) rest)) (app (ls outs@loop) (selK (mc obj) (sortedKeys (mc obj)))))
//@     invariant (= (outBadK (mc obj) rest true) (outBadK (mc obj) (sortedKeys (mc obj)) true))
//@     invariant (=> (escV obj@pre) (and (= outs (VList LNil)) (forall ((j String)) (=> (select visited j) (= (select (mc ret) j) (select (mc obj) j))))))   [C06]
//
//@ func findOutputsList(obj) (res, outs, err)
//@   propagates all   [C08]
//@   uses escNoBoolKey
//@   ensures (=> (escV obj) (and (not (isErr err)) (= res obj) (= outs (VList LNil))))       [C06]
//@   uses appNil, snocApp, appAssoc, dropMarkersRank
//@   ensures (= (isErr err) (outBad obj true))
//@   ensures (=> (not (isErr err)) (= res (stripF obj)))                           [C11]
//@   ensures (=> (not (isErr err)) (= outs (VList (selF obj))))                    [C11]
//@   decreases (rank obj) 0
//@   loop 1
//@     invariant ((_ is VList) ret) ((_ is VList) outs)
//@     invariant (= (app (ls ret) (stripL rest)) (stripL (ls obj)))
//@     invariant (= (app (ls outs) (selL rest)) (selL (ls obj)))
//@     invariant (= (outBadL rest true) (outBadL (ls obj) true))
//@     invariant (=> (escL (ls obj)) (and (= outs (VList LNil)) (= (app (ls ret) rest) (ls obj)) (escL rest)))   [C06]
//
//@ func filterOutput(obj) (res, err)
//@   propagates all   [C08]
//@   ensures (= (isErr err) (outBad obj false))
//@   ensures (=> (not (isErr err)) (= res (hideF obj)))                            [C11] [C06]
//@   ensures (=> (escV obj) (and (not (isErr err)) (= res (dropF obj))))                      [C06]
//@   decreases (rank obj) 1
//
//@ func filterOutputMap(obj) (res, err)
//@   propagates all   [C08]
//@   uses escNames
//@   requires ((_ is VMap) obj)
//@   ensures (= (isErr err) (outBad obj false))
//@   ensures (=> (not (isErr err)) (= res (hideF obj)))                            [C11]
//@   ensures (=> (escV obj) (not (isErr err)))                                                [C06]
//@   ensures (=> (escV obj) (and ((_ is VMap) res) (forall ((j String)) (= (select (mc res) j)  [C06]
//@              (ite (or (= (select (mc obj) j) VAbsent) (= (dropF (select (mc obj) j)) VNil)) VAbsent (dropF (select (mc obj) j)))))))
//@   ensures (=> (escV obj) (= res (dropF obj)))                                              [C06] [follows]
//@   decreases (rank obj) 0
//@   call filterMap#1
//@     invariant ((_ is VMap) ret)
//@     invariant (forall ((j String)) (=> (select visited j) (= (select (mc ret) j)
//@                  (ite (= (hideF (select (mc m) j)) VNil) VAbsent (hideF (select (mc m) j))))))
//@     invariant (forall ((j String)) (=> (not (select visited j)) (= (select (mc ret) j) VAbsent)))
//@     invariant (= (outBadK (mc m) rest false) (outBadK (mc m) (sortedKeys (mc m)) false))
//@     invariant (=> (escV obj@pre) (and (= m obj@pre) (forall ((j String)) (=> (select visited j) (= (select (mc ret) j)   [C06]
//@                  (ite (= (dropF (select (mc m) j)) VNil) VAbsent (dropF (select (mc m) j))))))))
//
//@ func filterOutputList(obj) (res, err)
//@   propagates all   [C08]
//@   uses escNoBoolKey
//@   ensures (=> (escV obj) (and (not (isErr err)) (= res (dropF obj))))                      [C06]
//@   uses appNil, snocApp, noMarkerNoExtra
//@   ensures (= (isErr err) (outBad obj false))
//@   ensures (=> (not (isErr err)) (= res (hideF obj)))                            [C11]
//@   decreases (rank obj) 0
//@   call filterList#1
//@     invariant ((_ is VList) ret)
//@     invariant (= (app (ls ret) (hideL rest)) (hideL (ls l)))
//@     invariant (= (outBadL rest false) (outBadL (ls l) false))
//@     invariant (=> (escL (ls l)) (and (= (app (ls ret) (dropL rest)) (dropL (ls l))) (escL rest)))   [C06]

// ------------------------------------------------------------------------------------------------- finalize.go

//@ func finalizeString(obj) (res)
//@   ensures (= res (unesc obj))                                                   [C06]
//
//@ func finalizeOutput(obj) (res)
//@   ensures (= res (finF obj))                                                    [C06] [C09]
//@   decreases (rank obj) 1
//
//@ func finalizeList(obj) (res)
//@   uses lsetLen, lrepeatLen, ltakeSet, ltakeAll, finLsnoc, appLen
//@   ensures (= res (finF obj))                                                    [C06]
//@   decreases (rank obj) 0
//@   loop 1
//@     invariant ((_ is VList) newList)
//@     invariant (= (llen (ls newList)) (llen (ls obj)))
//@     invariant (= (ltake (ls newList) idx) (finL done))
//
//@ func finalizeMap(obj) (res)
//@   requires ((_ is VMap) obj)
//@   ensures ((_ is VMap) res)                                                      [C08]
//@   ensures (= res (finF obj))                                                    [C06] [C09]
//@   decreases (rank obj) 0
//@   loop 1
//@     invariant ((_ is VMap) newObj)
//@     invariant (= (finFold (mc newObj) (mc obj) rest) (finFold emptyM (mc obj) (sortedKeys (mc obj))))

// ------------------------------------------------------------------------------------------------- parser.go (output side)

//@ func Parser.outputDocument(p, doc) (res, err)
//@   property C01, C02, C03, C04, C07, C10, C12, C13, C14, C17 shallow   -- every property that says "... is an error" is observed through this function: a failure below it must surface (propagates)
//@   propagates all   [C08] [C20] [C07] [C03]
//@   property C19
//@   modifies nothing
//@   uses appNil, snocApp, appAssoc
//@   ensures (=> (not (isErr err))
//@              (exists ((h (Array Int Val)) (ds RLst))
//@                 (and (not (candsBad h ds)) (not (emitErr (candsL h ds))) (= res (VList (emitF (candsL h ds)))))))   [C11] [C07] [C06]
//@   loop 1
//@     invariant ((_ is VList) outs)
//@     invariant (= (app (ls outs) (candsL (heap Document.Data) rest)) (candsL (heap Document.Data) docs))
//@     invariant (= (candsBad (heap Document.Data) rest) (candsBad (heap Document.Data) docs))
//@   call filterList#1
//@     invariant ((_ is VList) ret)
//@     invariant (= (app (ls ret) (emitF rest)) (emitF (ls l)))
//@     invariant (= (emitErr rest) (emitErr (ls l)))
//@   at call Document.Process#1
//@     assert (and (= d@arg doc) (= mergeFromDocs@arg (Parser.docs p)))            [C10] [C11] [C07] [C06]
//@   at call findOutputs#1
//@     assert (= obj@arg (Document.Data d))                                        [C11]
//@   at call finalizeOutput#1
//@     assert (noMarker v2)                                                        [C07]
//@     assert (= v2 (hideF v))                                                     [C11]

// ------------------------------------------------------------------------------------------------- repeat.go, evalcontext.go, document.go (shape contracts)

//@ func repeatDoc(doc, ec) (docs, ecs, err)
//@   property C12
//@   propagates all   [C12] [C08]
//@   ensures (=> (not (isErr err)) (= (rllen docs) (rllen ecs)))
//@   ensures (=> (and (not ((_ is VMap) (old (Document.Data doc)))) (not ((_ is VList) (old (Document.Data doc)))))   [C12] [C06]
//@              (and (not (isErr err)) (= docs (RCons doc RNil)) (= ecs (RCons ec RNil)) (= (heap Document.Data) (old (heap Document.Data)))))
//@   ensures (=> (and ((_ is VMap) (old (Document.Data doc))) (= (select (mc (old (Document.Data doc))) "$repeat") VAbsent))   [C12] [C06]
//@              (and (not (isErr err)) (= docs (RCons doc RNil)) (= ecs (RCons ec RNil)) (= (heap Document.Data) (old (heap Document.Data)))))
//@   at call repeatDocMap#1
//@     assert (and (= doc@arg doc) (= ec@arg ec) (= data@arg (Document.Data doc)))                           [C12]
//@   at call repeatDocList#1
//@     assert (and (= doc@arg doc) (= ec@arg ec) (= data@arg (Document.Data doc)))                           [C12]
//
//@ func repeatDocMap(doc, ec, data) (docs, ecs, err)
//@   propagates all   [C08]
//@   ensures (=> (not (isErr err)) (= (rllen docs) (rllen ecs)))
//@   ensures (=> (= (select (mapOf data) "$repeat") VAbsent)                                               [C12] [C06]
//@              (and (not (isErr err)) (= docs (RCons doc RNil)) (= ecs (RCons ec RNil)) (= (heap Document.Data) (old (heap Document.Data)))))
//@   ensures (=> ((_ is VInt) (select (mapOf data) "$repeat")) (and (not (isErr err))                      [C12]
//@              (= (rllen docs) (ite (< (iv (select (mapOf data) "$repeat")) 0) 0 (iv (select (mapOf data) "$repeat"))))
//@              (repInt (heap EvalContext.Vars) (heap Document.Data) docs ecs (old (EvalContext.Vars ec)) (VMap (store (mapOf data) "$repeat" VAbsent)) "$repeat" allocTop)))
//
//@ func repeatDocList(doc, ec, data) (docs, ecs, err)
//@   propagates all   [C08]
//@   ensures (=> (not (isErr err)) (= (rllen docs) (rllen ecs)))
//@   ensures (=> (plmvE (ls data) "$repeat" VNil) (isErr err))                                            [C12]
//@   ensures (=> (and (not (plmvE (ls data) "$repeat" VNil)) (= (plmvV (ls data) "$repeat" VNil) VNil))   [C12] [C06]
//@              (and (not (isErr err)) (= docs (RCons doc RNil)) (= ecs (RCons ec RNil)) (= (heap Document.Data) (old (heap Document.Data)))))
//@   at call repeatDocGen#1
//@     assert (and (= v@arg (plmvV (ls data) "$repeat" VNil)) (= (Document.Data doc) (VList (plmvR (ls data) "$repeat"))))   [C12]
//
//@ func repeatDocGen(doc, ec, v) (docs, ecs, err)
//@   propagates all   [C08]
//@   ensures (=> (not (isErr err)) (= (rllen docs) (rllen ecs)))
//@   ensures (=> (and (not ((_ is VInt) v)) (not ((_ is VMap) v))) (= err ErrInvalidRepeat))                 [C12]
//@   ensures (=> ((_ is VInt) v) (and (not (isErr err))                                                    [C12]
//@              (= (rllen docs) (ite (< (iv v) 0) 0 (iv v)))
//@              (repInt (heap EvalContext.Vars) (heap Document.Data) docs ecs (old (EvalContext.Vars ec)) (old (Document.Data doc)) "$repeat" allocTop)))
//
//@ func repeatDocGenFromInt(doc, ec, name, count) (docs, ecs, err)
//@   propagates all   [C08]
//@   property C09
//@   uses rappLen, rlnthSnoc
//@   preserves-existing
//@   ensures (not (isErr err))
//@   ensures (= (rllen docs) (rllen ecs))
//@   ensures (= (rllen docs) (ite (< count 0) 0 count))                                                     [C12]
//@   ensures (repInt (heap EvalContext.Vars) (heap Document.Data) docs ecs (old (EvalContext.Vars ec)) (old (Document.Data doc)) name allocTop)   [C12]
//@   loop 1
//@     invariant (= (rllen docs) (rllen ecs))
//@     invariant (and (<= 0 i) (= (rllen docs) i) (or (<= i count) (= i 0)))
//@     invariant (forall ((r Int)) (=> (< r (old allocTop)) (and (= (EvalContext.Vars r) (old (EvalContext.Vars r))) (= (Document.Data r) (old (Document.Data r)))
//@                                                            (= (Document.Parents r) (old (Document.Parents r))) (= (Document.ID r) (old (Document.ID r))))))
//@     invariant (forall ((j Int)) (=> (and (<= 0 j) (< j i))
//@              (and (= (EvalContext.Vars (rlnth ecs j)) (VMap (store (mapOf (old (EvalContext.Vars ec))) name (VInt j))))
//@                   (= (Document.Data (rlnth docs j)) (old (Document.Data doc)))
//@                   (>= (rlnth ecs j) (old allocTop)) (< (rlnth ecs j) allocTop)
//@                   (>= (rlnth docs j) (old allocTop)) (< (rlnth docs j) allocTop))))
//
//@ func repeatDocGenFromMap(doc, ec, rs) (docs, ecs, err)
//@   property C09, C12
//@   uses rappLen
//@   ensures (=> (not (isErr err)) (= (rllen docs) (rllen ecs)))
//@   ensures (=> (not (isErr err)) (forall ((j String)) (=> (not (= (select (mapOf rs) j) VAbsent)) ((_ is VInt) (select (mapOf rs) j)))))   [C12]
//@   propagates all   [C12] [C08]
//@   loop 2
//@     invariant (= (rllen docs) (rllen ecs))
//@     invariant (forall ((j String)) (=> (select visited j) ((_ is VInt) (select (mapOf rs) j))))          [C12]
//@   loop 3
//@     invariant (= (rllen tmpDocs) (rllen tmpECs))

// ------------------------------------------------------------------------------------------------- yaml.go (shape contracts)

//@ func yamlMerge(dst, src, node) (err)
//@   propagates all   [C08]
//@   uses canonNth
//@   mutates dst
//@   requires ((_ is VMap) dst)
//@   ensures ((_ is VMap) dst@post)
//@   ensures (=> (and (canon dst) (canon src)) (canon dst@post))                                            [C04]
//@   loop 1
//@     invariant ((_ is VMap) dst)
//@     invariant (=> (and (canon dst@pre) (canon src)) (canon dst))
//@   loop 2
//@     invariant ((_ is VMap) dst)
//@     invariant (=> (and (canon dst@pre) (canon src)) (canon dst))
//@   loop 3
//@     invariant ((_ is VMap) dst)
//@     invariant (=> (and (canon dst@pre) (canon src)) (canon dst))

//@ func Document.Process(d, mergeFromDocs) (docs, err)
//@   property C01, C02, C03, C04, C07, C10, C12, C13, C14, C17 shallow   -- the evaluation spine: every property that says "... is an error" relies on a failure below this function surfacing (propagates)
//@   property C01, C02, C03, C04, C07, C10, C12, C13, C14, C17 shallow   -- every property that says "... is an error" is observed through this function: a failure below it must surface (propagates)
//@   propagates all   [C08] [C20] [C07] [C03]
//@   uses rappLen
//@   at call process1#1
//@     assert (and (= obj@arg (Document.Data d)) (= (Document.Data d) (old (Document.Data d@pre))) (= mergeFrom@arg d) (= mergeFromDocs@arg mergeFromDocs) (= depth@arg 0)   [C10] [C06] [C12]
//@                 (not (= d d@pre)) (>= d (old allocTop)))
//@   at call repeatDoc#1
//@     assert (and (= doc@arg d) (= ec@arg ec))                                                              [C12]
//@   at call process2#1
//@     assert (and (= obj@arg (Document.Data doc)) (= mergeFrom@arg doc) (= mergeFromDocs@arg mergeFromDocs) (= ec@arg (rlnth ecs i)) (= depth@arg 0))   [C12] [C13] [C14] [C06]

// ------------------------------------------------------------------------------------------------- process1.go (termination: depth guard)
// measure: (1002 - depth, rank of the function inside one depth level); process1 increments depth and refuses depth > 1000

//@ func process1(obj, mergeFrom, mergeFromDocs, depth) (res, err)
//@   property C01, C02, C03, C04, C07, C10, C12, C13, C14, C17 shallow   -- the evaluation spine: every property that says "... is an error" relies on a failure below this function surfacing (propagates)
//@   propagates all   [C08]
//@   ensures (=> (not (isErr err)) (noNullV res))     [C13]
//@   ensures (=> (quiet obj depth) (and (not (isErr err)) (= res (dropF obj))))          [C06]
//@   inplace obj
//@   property C10
//@   decreases (- 1002 depth) 0
//@ func process1Map(obj, mergeFrom, mergeFromDocs, depth) (res, err)
//@   property C01, C02, C03, C04, C07, C10, C12, C13, C14, C17 shallow   -- the evaluation spine: every property that says "... is an error" relies on a failure below this function surfacing (propagates)
//@   propagates all   [C08]
//@   uses escNames
//@   ensures (=> (not (isErr err)) (noNullV res))     [C13]
//@   ensures (=> (quiet obj (- depth 1)) (not (isErr err)))                                [C06]
//@   ensures (=> (quiet obj (- depth 1)) (and ((_ is VMap) res) (forall ((j String)) (= (select (mc res) j)   [C06]
//@              (ite (or (= (select (mc obj) j) VAbsent) (= (dropF (select (mc obj) j)) VNil)) VAbsent (dropF (select (mc obj) j)))))))
//@   ensures (=> (quiet obj (- depth 1)) (= res (dropF obj)))                              [C06] [follows]
//@   call filterMap#1
//@     invariant ((_ is VMap) ret)
//@     invariant (noNullV ret)     [C13]
//@     invariant (=> (quiet m (- depth 1)) (forall ((j String)) (=> (select visited j) (= (select (mc ret) j) (ite (= (dropF (select (mc m) j)) VNil) VAbsent (dropF (select (mc m) j)))))))   [C06]
//@     invariant (=> (quiet m (- depth 1)) (forall ((j String)) (=> (not (select visited j)) (= (select (mc ret) j) VAbsent))))   [C06]
//@   inplace obj
//@   property C10
//@   requires ((_ is VMap) obj)
//@   decreases (- 1002 depth) 5
//@   at call process1MapMerge#1
//@     assert (and (= v (select (mc obj@pre) "$merge")) (= obj (VMap (minus (mc obj@pre) "$merge"))))        [C10]
//@   at call process1MapReplace#1
//@     assert (and (= (select (mc obj@pre) "$merge") VAbsent) (= v (select (mc obj@pre) "$replace")))        [C10]
//@ func process1MapMerge(obj, mergeFrom, mergeFromDocs, v, depth) (res, err)
//@   propagates all   [C08]
//@   property C09 shallow   -- determinism rests on the looked-up subtree being copied BEFORE it is merged or evaluated (ownership obligations): a merge that reads a tree which is being written depends on map order
//@   ensures (=> (not (isErr err)) (called process1#1))     [C10]   -- whatever the reference resolves to is evaluated: a referenced scalar may itself be a reference
//@   fails-only-through-calls   [C10]   -- a reference behaves like the inlined subtree: no failure of its own beyond the look-up, the copy, the merge and the evaluation
//@   ensures (=> (not (isErr err)) (noNullV res))     [C13]
//@   inplace obj
//@   property C10
//@   requires ((_ is VMap) obj)
//@   decreases (- 1002 depth) 1
//@   at call process1#1
//@     assert (= next (mergeF obj in))                                                                   [C10]
//@     assert (=> ((_ is VStr) v) (strPathOK (heap Document.Data) (Document.Data mergeFrom) mergeFromDocs (sv v) in false))    [C10]
//@     assert (=> ((_ is VList) v) (listPathOK (heap Document.Data) (Document.Data mergeFrom) mergeFromDocs (ls v) in false))  [C10]
//@ func process1MapReplace(obj, mergeFrom, mergeFromDocs, v, depth) (res, err)
//@   propagates all   [C08]
//@   property C09 shallow   -- determinism rests on the looked-up subtree being copied BEFORE it is merged or evaluated (ownership obligations): a merge that reads a tree which is being written depends on map order
//@   ensures (=> (not (isErr err)) (called process1#1))     [C10]   -- whatever the reference resolves to is evaluated: a referenced scalar may itself be a reference
//@   fails-only-through-calls   [C10]   -- a reference behaves like the inlined subtree: no failure of its own beyond the look-up, the copy, the merge and the evaluation
//@   ensures (=> (not (isErr err)) (noNullV res))     [C13]
//@   decreases (- 1002 depth) 1
//@   at call process1#1
//@     assert (=> ((_ is VStr) v) (strPathOK (heap Document.Data) (Document.Data mergeFrom) mergeFromDocs (sv v) next false))    [C10]
//@     assert (=> ((_ is VList) v) (listPathOK (heap Document.Data) (Document.Data mergeFrom) mergeFromDocs (ls v) next false))  [C10]
//@ func process1List(obj, mergeFrom, mergeFromDocs, depth) (res, err)
//@   effects closure-write:merge   -- the per-entry callback also records in merge (the loop invariants of this contract speak about it)
//@   property C01, C02, C03, C04, C07, C10, C12, C13, C14, C17 shallow   -- the evaluation spine: every property that says "... is an error" relies on a failure below this function surfacing (propagates)
//@   propagates all   [C08]
//@   uses appNil, snocApp, escNoKey, noNullApp
//@   ensures (=> (not (isErr err)) (noNullV res))     [C13]
//@   ensures (=> (quiet obj (- depth 1)) (and (not (isErr err)) (= res (dropF obj))))    [C06]
//@   call filterList#1
//@     invariant ((_ is VList) ret)
//@     invariant (=> (escL (ls l)) (and (= (app (ls ret) rest) (ls l)) (= merge (VList LNil)) (escL rest)))   [C06]
//@     invariant ((_ is VList) merge)
//@     invariant (= (app (ls ret) (plmvR rest "$merge")) (plmvR (ls l) "$merge"))                         [C10]
//@     invariant (= (app (ls merge) (collectK rest "$merge")) (collectK (ls l) "$merge"))                 [C10]
//@   loop 1
//@     invariant (=> (= (ls merge) LNil) (= obj obj@loop))   [C06]
//@   order process1ListMerge#1 popListMapValue#1   -- the referenced lists are inlined first: a {$replace: ..} entry that comes in through a $merge is honoured
//@   at call process1ListMerge#1
//@     assert (and (= m@arg elem) (= obj@arg obj) (= (ls merge) (collectK (ls obj@pre) "$merge")))          [C10]
//@   at call process1ListReplace#1
//@     assert (and (= m@arg m) (not (= m VNil)) (= obj@arg obj))                                             [C10]
//@   call filterList#2
//@     invariant ((_ is VList) ret)
//@     invariant (noNullL (ls ret))     [C13]
//@     invariant (=> (quiet l (- depth 1)) (and (= (app (ls ret) (dropL rest)) (dropL (ls l))) (escL rest)))   [C06]
//@   inplace obj
//@   property C10
//@   decreases (- 1002 depth) 5
//@ func process1ListReplace(obj, mergeFrom, mergeFromDocs, m, depth) (res, err)
//@   propagates all   [C08]
//@   property C09 shallow   -- determinism rests on the looked-up subtree being copied BEFORE it is merged or evaluated (ownership obligations): a merge that reads a tree which is being written depends on map order
//@   ensures (=> (not (isErr err)) (called process1#1))     [C10]   -- whatever the reference resolves to is evaluated: a referenced scalar may itself be a reference
//@   fails-only-through-calls   [C10]   -- a reference behaves like the inlined subtree: no failure of its own beyond the look-up, the copy, the merge and the evaluation
//@   ensures (=> (not (isErr err)) (noNullV res))     [C13]
//@   decreases (- 1002 depth) 1
//@ func process1String(obj, mergeFrom, mergeFromDocs, depth) (res, err)
//@   propagates all   [C08]
//@   ensures (=> (not (isErr err)) (noNullV res))     [C13]
//@   ensures (=> (escS obj) (and (not (isErr err)) (= res (VStr obj))))                    [C06]
//@   decreases (- 1002 depth) 5
//@ func process1StringMerge(obj, mergeFrom, mergeFromDocs, depth) (res, err)
//@   propagates all   [C08]
//@   property C09 shallow   -- determinism rests on the looked-up subtree being copied BEFORE it is merged or evaluated (ownership obligations): a merge that reads a tree which is being written depends on map order
//@   ensures (=> (not (isErr err)) (called process1#1))     [C10]   -- whatever the reference resolves to is evaluated: a referenced scalar may itself be a reference
//@   fails-only-through-calls   [C10]   -- a reference behaves like the inlined subtree: no failure of its own beyond the look-up, the copy, the merge and the evaluation
//@   ensures (=> (not (isErr err)) (noNullV res))     [C13]
//@   decreases (- 1002 depth) 1
//@   at call process1#1
//@     assert (strPathOK (heap Document.Data) (Document.Data mergeFrom) mergeFromDocs (trimPrefix obj "$merge:") in false)      [C10]
//@ func process1StringReplace(obj, mergeFrom, mergeFromDocs, depth) (res, err)
//@   propagates all   [C08]
//@   property C09 shallow   -- determinism rests on the looked-up subtree being copied BEFORE it is merged or evaluated (ownership obligations): a merge that reads a tree which is being written depends on map order
//@   ensures (=> (not (isErr err)) (called process1#1))     [C10]   -- whatever the reference resolves to is evaluated: a referenced scalar may itself be a reference
//@   fails-only-through-calls   [C10]   -- a reference behaves like the inlined subtree: no failure of its own beyond the look-up, the copy, the merge and the evaluation
//@   ensures (=> (not (isErr err)) (noNullV res))     [C13]
//@   decreases (- 1002 depth) 1
//@   at call process1#1
//@     assert (strPathOK (heap Document.Data) (Document.Data mergeFrom) mergeFromDocs (trimPrefix obj "$replace:") in false)    [C10]

// ------------------------------------------------------------------------------------------------- process2.go (termination: depth guard)

//@ func process2(obj, mergeFrom, mergeFromDocs, ec, depth) (res, err)
//@   property C01, C02, C03, C04, C07, C10, C12, C13, C14, C17 shallow   -- the evaluation spine: every property that says "... is an error" relies on a failure below this function surfacing (propagates)
//@   propagates all   [C08]
//@   ensures (=> (quiet obj depth) (and (not (isErr err)) (= res (dropF obj))))          [C06]
//@   decreases (- 1002 depth) 0
//@ func process2Map(obj, mergeFrom, mergeFromDocs, ec, depth) (res, err)
//@   property C01, C02, C03, C04, C07, C10, C12, C13, C14, C17 shallow   -- the evaluation spine: every property that says "... is an error" relies on a failure below this function surfacing (propagates)
//@   propagates all   [C08]
//@   uses escNames
//@   requires ((_ is VMap) obj)
//@   ensures (=> (quiet obj (- depth 1)) (not (isErr err)))                                [C06]
//@   ensures (=> (quiet obj (- depth 1)) (and ((_ is VMap) res) (forall ((j String)) (= (select (mc res) j)   [C06]
//@              (ite (or (= (select (mc obj) j) VAbsent) (= (dropF (select (mc obj) j)) VNil)) VAbsent (dropF (select (mc obj) j)))))))
//@   ensures (=> (quiet obj (- depth 1)) (= res (dropF obj)))                              [C06] [follows]
//@   call filterMap#1
//@     invariant ((_ is VMap) ret)
//@     invariant (=> (escV m) (forall ((j String)) (= (select (mc ret) j) (ite (select visited j) (select (mc m) j) VAbsent))))   [C06]
//@   call filterMap#2
//@     invariant ((_ is VMap) ret)
//@     invariant (=> (quiet m (- depth 1)) (forall ((j String)) (=> (select visited j) (= (select (mc ret) j) (ite (= (dropF (select (mc m) j)) VNil) VAbsent (dropF (select (mc m) j)))))))   [C06]
//@     invariant (=> (quiet m (- depth 1)) (forall ((j String)) (=> (not (select visited j)) (= (select (mc ret) j) VAbsent))))   [C06]
//@   decreases (- 1002 depth) 9
//@   at call process2#1
//@     assert (and (= obj@arg v) (= ec@arg ec) (= mergeFrom@arg mergeFrom) (= depth@arg depth))              [C13] [C12] [C14]
//@   at call process2#2
//@     assert (and (= obj@arg (VStr k)) (= ec@arg ec) (= mergeFrom@arg mergeFrom) (= depth@arg depth))       [C13] [C12]   -- keys are evaluated like values
//@   at call process2Encode#1
//@     assert (and (not (= v@arg VAbsent)) (= (select (mapOf obj@arg) "$encode") VAbsent))                  [C14]
//@   at call process2Decode#1
//@     assert (and (not (= v@arg VAbsent)) (= (select (mapOf obj@arg) "$decode") VAbsent) (= (select (mapOf obj@arg) "$encode") VAbsent))   [C14]
//@   at call process2MapValue#1
//@     assert (and (not (= v@arg VAbsent)) (= (mlen (mapOf obj@arg)) 0))                                     [C14]
//@ func process2MapValue(obj, mergeFrom, mergeFromDocs, ec, v, depth) (res, err)
//@   propagates all   [C08]
//@   decreases (- 1002 depth) 1
//@ func process2Encode(obj, mergeFrom, mergeFromDocs, ec, v, depth) (res, err)
//@   decreases (- 1002 depth) 1
//@   property C07
//@   property C09 shallow   -- which error validate reports depends on map order; only "it failed" may be used (propagated as it is)
//@   propagates all   [C09] [C07] [C14]
//@   property C14, C06   -- the entry of $encode: the transforms get the evaluated subtree itself (validated, not finalized: the $$ -> $ unescape happens once, at output)
//@   at call process2EncodeAny#1
//@     assert (noMarker obj2)                                                                             [C07] [C14]
//@     assert (= obj@arg obj2)                                                                            [C14] [C06]
//@   at call validate#1
//@     assert (= obj@arg obj2)                                                                            [C14] [C07]
//@ func process2Decode(obj, mergeFrom, mergeFromDocs, ec, v, depth) (res, err)
//@   propagates all   [C08]
//@   decreases (- 1002 depth) 5
//@   ensures (=> (not ((_ is VStr) v)) (= err ErrInvalidType))                                             [C14]
//@ func process2DecodeString(obj, mergeFrom, mergeFromDocs, ec, v, depth) (res, err)
//@   propagates all   [C08]
//@   decreases (- 1002 depth) 4
//@   ensures (=> (not ((_ is VMap) obj)) (= err ErrInvalidType))                                           [C14]
//@ func process2DecodeStringMap(obj, mergeFrom, mergeFromDocs, ec, v, depth) (res, err)
//@   propagates all   [C08]
//@   decreases (- 1002 depth) 3
//@   property C04
//@   property C12, C13, C14 shallow   -- what $decode yields is the EVALUATION of the decoded document (interpolation, $env, $repeat variables inside the decoded text are resolved in the caller's context)
//@   at call process2#1
//@     assert (=> (decShape (hd (ls decs))) (canon dec))                                                  [C04] [C14]
//@     assert (and (= obj@arg dec) (= ec@arg ec))                                                         [C13] [C12] [C14]
//@   requires ((_ is VMap) obj)
//@   ensures (=> (= (select (mc obj) "$value") VAbsent) (isErr err))                                       [C14]
//@   ensures (=> (not ((_ is VStr) (select (mc obj) "$value"))) (isErr err))                               [C14]
//@   ensures (=> (not (= (mlen (store (mc obj) "$value" VAbsent)) 0)) (isErr err))                         [C14]
//@   ensures (=> (= (fmtByName v) 0) (isErr err))                                                          [C14]
//@   ensures (=> (and ((_ is VStr) (select (mc obj) "$value")) (not (= (fmtByName v) 0))                   [C14]
//@                    (not (= (llen (unmarshalV (fmtByName v) (sv (select (mc obj) "$value")))) 1))) (isErr err))
//@ func process2List(obj, mergeFrom, mergeFromDocs, ec, depth) (res, err)
//@   property C01, C02, C03, C04, C07, C10, C12, C13, C14, C17 shallow   -- the evaluation spine: every property that says "... is an error" relies on a failure below this function surfacing (propagates)
//@   propagates all   [C08]
//@   uses appNil, snocApp, escNoKey
//@   ensures (=> (quiet obj (- depth 1)) (and (not (isErr err)) (= res (dropF obj))))    [C06]
//@   call filterList#1
//@     invariant ((_ is VList) ret)
//@     invariant (=> (quiet l (- depth 1)) (and (= (app (ls ret) (dropL rest)) (dropL (ls l))) (escL rest)))   [C06]
//@   decreases (- 1002 depth) 9
//@   at call process2Encode#1
//@     assert (and (= v@arg (plmvV (ls obj@pre) "$encode" VNil)) (not (= v@arg VNil))                       [C14]
//@                 (= obj@arg (VList (plmvR (ls obj@pre) "$encode"))))
//@ func process2RepeatObjMap(v, mergeFrom, mergeFromDocs, ec, k, r, depth) (res, err)
//@   propagates all   [C08]
//@   ensures (=> (not (isErr err)) ((_ is VMap) res))                               [C08]
//@   property C13 shallow   -- "an unset variable is an error" rests on a nested $repeat leaving the caller's variable table alone (write-site obligations)
//@   decreases (- 1002 depth) 2
//@   ensures (=> (not ((_ is VInt) r)) (isErr err))                                                       [C12]
//@   at call process2#1
//@     assert (= (EvalContext.Vars ec) (VMap (store (mapOf (old (EvalContext.Vars ec@pre))) "$repeat" (VInt i))))   [C12]
//@   at call process2#2
//@     assert (= (EvalContext.Vars ec) (VMap (store (mapOf (old (EvalContext.Vars ec@pre))) "$repeat" (VInt i))))   [C12]
//@     assert (and (= obj@arg (VStr k)) (= depth@arg depth) (= mergeFrom@arg mergeFrom))                       [C12]
//@   loop 1
//@     invariant (and (= i@loop 0) (<= 0 i) (<= i (ite (< r2 0) 0 r2)))                                        [C12]   -- the copies are indexed 0 .. n-1
//@     transition (= i (+ i@iter 1))                                                                        [C12]
//@ func process2RepeatObjList(v, mergeFrom, mergeFromDocs, ec, r, depth) (res, err)
//@   propagates all   [C08]
//@   property C13 shallow   -- "an unset variable is an error" rests on a nested $repeat leaving the caller's variable table alone (write-site obligations)
//@   decreases (- 1002 depth) 2
//@   ensures (=> (not ((_ is VInt) r)) (isErr err))                                                       [C12]
//@   at call process2#1
//@     assert (= (EvalContext.Vars ec) (VMap (store (mapOf (old (EvalContext.Vars ec@pre))) "$repeat" (VInt i))))   [C12]
//@     assert (and (= obj@arg v) (= depth@arg depth) (= mergeFrom@arg mergeFrom))                               [C12]
//@   loop 1
//@     invariant (and (= i@loop 0) (<= 0 i) (<= i (ite (< r2 0) 0 r2)))                                        [C12]   -- the copies are indexed 0 .. n-1
//@     transition (= i (+ i@iter 1))                                                                        [C12]

// ------------------------------------------------------------------------------------------------- get.go (termination)

//@ func getPath(obj, parts) (res, err)
//@   propagates all   [C08]
//@   borrowed
//@   ensures (= (isErr err) (lookErr obj (sitems parts)))                                                             [C10]
//@   ensures (=> (isErr err) (= err ErrRefNotFound))                                                         [C10]
//@   ensures (=> (not (isErr err)) (= res (lookupF obj (sitems parts))))                                              [C10]
//@   decreases (sllen (sitems parts))

//@ func getCross(docs, conf) (res, err)
//@   propagates all   [C08]
//@   borrowed
//@   uses countMatchNonNeg
//@   requires ((_ is VMap) conf)
//@   ensures (=> (= (select (mc conf) "$match") VAbsent) (= err ErrMissingMatch))                                         [C10]
//@   ensures (=> (and (not (= (select (mc conf) "$match") VAbsent)) (not (= (countMatch (heap Document.Data) docs (select (mc conf) "$match")) 1))) (isErr err))   [C10]
//@   ensures (=> (and (not (= (select (mc conf) "$match") VAbsent)) (= (select (mc conf) "$path") VAbsent) (not (isErr err)))     [C10]
//@              (= res (Document.Data (firstMatch (heap Document.Data) docs (select (mc conf) "$match")))))
//@   ensures (=> (and (not (= (select (mc conf) "$match") VAbsent)) (= (countMatch (heap Document.Data) docs (select (mc conf) "$match")) 1) ((_ is VStr) (select (mc conf) "$path")))    [C10]
//@              (strPathOK (heap Document.Data) (Document.Data (firstMatch (heap Document.Data) docs (select (mc conf) "$match"))) docs
//@                         (sv (select (mc conf) "$path")) res (isErr err)))
//@   ensures (=> (and (not (= (select (mc conf) "$match") VAbsent)) (= (countMatch (heap Document.Data) docs (select (mc conf) "$match")) 1) ((_ is VList) (select (mc conf) "$path")))   [C10]
//@              (listPathOK (heap Document.Data) (Document.Data (firstMatch (heap Document.Data) docs (select (mc conf) "$match"))) docs
//@                          (ls (select (mc conf) "$path")) res (isErr err)))
//@   decreases (rank conf) 0

// ------------------------------------------------------------------------------------------------- ownership / frame (C02, C10, C19)
// modes: consumes (callee may mutate/embed; caller gives it up), inplace (evaluated in place: process1's documented
// behaviour, allowed on referenced data but a modification of whatever holds it), mutates (in/out container),
// borrowed (results alias stored documents), fresh (results share nothing), modifies (struct fields written).

//@ func get(doc, docs, m) (res, err)
//@   propagates all   [C08]
//@   borrowed
//@   ensures (=> ((_ is VStr) m) (strPathOK (heap Document.Data) (Document.Data doc) docs (sv m) res (isErr err)))          [C10]
//@   ensures (=> ((_ is VList) m) (listPathOK (heap Document.Data) (Document.Data doc) docs (ls m) res (isErr err)))        [C10]
//@   ensures (=> (and (not ((_ is VStr) m)) (not ((_ is VList) m)) (not ((_ is VMap) m))) (= err ErrInvalidType))           [C10]
//@   ensures (=> (and ((_ is VMap) m) (= (select (mc m) "$match") VAbsent)) (= err ErrMissingMatch))                        [C10]
//@   ensures (=> (and ((_ is VMap) m) (not (= (select (mc m) "$match") VAbsent)) (not (= (countMatch (heap Document.Data) docs (select (mc m) "$match")) 1))) (isErr err))   [C10]
//@   ensures (=> (and ((_ is VMap) m) (not (= (select (mc m) "$match") VAbsent)) (= (select (mc m) "$path") VAbsent) (not (isErr err)))   [C10]
//@              (= res (Document.Data (firstMatch (heap Document.Data) docs (select (mc m) "$match")))))
//@   decreases (rank m) 1
//@ func getPathFromString(obj, docs, path) (res, err)
//@   propagates all   [C08]
//@   borrowed
//@   ensures (strPathOK (heap Document.Data) obj docs path res (isErr err))                                  [C10]
//@ func getPathFromList(obj, docs, path) (res, err)
//@   propagates all   [C08]
//@   borrowed
//@   uses countMatchNonNeg
//@   ensures (listPathOK (heap Document.Data) obj docs (ls path) res (isErr err))                           [C10]

//@ func getCrossDoc(docs, pat) (res, err)
//@   propagates all   [C08]
//@   borrowed
//@   uses countMatchNonNeg
//@   ensures (=> (= (countMatch (heap Document.Data) docs pat) 0) (= err ErrNoMatchFound))                   [C10]
//@   ensures (=> (> (countMatch (heap Document.Data) docs pat) 1) (= err ErrMultiMatch))                     [C10]
//@   ensures (=> (= (countMatch (heap Document.Data) docs pat) 1)                                            [C10]
//@              (and (not (isErr err)) (= res (firstMatch (heap Document.Data) docs pat)) (not (= res 0))))
//@   loop 1
//@     invariant (= (+ (ite (= ret 0) 0 1) (countMatch (heap Document.Data) rest pat)) (countMatch (heap Document.Data) docs pat))
//@     invariant (=> (not (= ret 0)) (= ret (firstMatch (heap Document.Data) docs pat)))
//@     invariant (=> (= ret 0) (= (firstMatch (heap Document.Data) rest pat) (firstMatch (heap Document.Data) docs pat)))

//@ func process1ListMerge(obj, mergeFrom, mergeFromDocs, m, depth) (res, err)
//@   propagates all   [C08]
//@   property C09 shallow
//@   fails-only-through-calls   [C10]   -- a reference behaves like the inlined subtree: no failure of its own beyond the look-up, the copy, the merge and the evaluation
//@   property C10
//@   consumes obj
//@   ensures (=> (not (isErr err)) (exists ((x Val)) (and (= res (mergeF obj x))                             [C10]
//@               (=> ((_ is VStr) m) (strPathOK (heap Document.Data) (Document.Data mergeFrom) mergeFromDocs (sv m) x false))
//@               (=> ((_ is VList) m) (listPathOK (heap Document.Data) (Document.Data mergeFrom) mergeFromDocs (ls m) x false)))))

//@ func mergeDocs(doc, patch) (err)
//@   property C01, C03, C04, C07, C10, C12, C13, C14, C17 shallow   -- how a layer reaches its targets: a $required in one document is satisfied only by an override of THAT document (no value shared between targets), and a failing merge surfaces
//@   propagates all   [C08] [C20] [C07] [C03]
//@   property C02
//@   modifies Document.Data[doc], Document.Parents[patch]
//@   requires (not (= doc patch))
//@   ensures (= (isErr err) (mergeErr (old (Document.Data doc)) (old (Document.Data patch))))                                   [C02] [C01]
//@   ensures (=> (isErr err) (and (= (heap Document.Data) (old (heap Document.Data))) (= (heap Document.Parents) (old (heap Document.Parents)))))   [C02]
//@   ensures (=> (not (isErr err)) (= (heap Document.Data)                                                                     [C02] [C01]
//@              (store (old (heap Document.Data)) doc (mergeF (old (Document.Data doc)) (old (Document.Data patch))))))
//@   ensures (=> (not (isErr err)) (= (heap Document.Parents)                                                                  [C02]
//@              (store (old (heap Document.Parents)) patch (rapp (old (Document.Parents patch)) (RCons doc RNil)))))

//@ func Parser.MergeDocument(p, patch) (err)
//@   property C01, C03, C04, C07, C10, C12, C13, C14, C17 shallow   -- how a layer reaches its targets: a $required in one document is satisfied only by an override of THAT document (no value shared between targets), and a failing merge surfaces
//@   propagates all   [C08] [C20] [C07] [C03]
//@   property C02
//@   property C01
//@   modifies Parser.docs, Document.Data, Document.Parents, Document.ID
//@   uses rmemApp, rdistinctApp, rappNil, rsnocApp, anyRejectedApp, wfDocsSnoc, wfDocsMono, rappAssoc
//@   requires (wfDocs (Parser.docs p) allocTop) (not (rmem patch (Parser.docs p))) (not (= patch 0))
//@   ensures (wfDocs (Parser.docs p) allocTop@post)                                                                                    [C02]
//@   ensures (forall ((r Int)) (=> (rmem r (Parser.docs p)) (or (rmem r (old (Parser.docs p))) (= r patch) (>= r allocTop))))            [C02]
//@   ensures (=> (not (and ((_ is VMap) (old (Document.Data patch))) (not (= (select (mc (old (Document.Data patch))) "$match") VAbsent))))          [C02]
//@              (let ((ts (parentsOf (old (heap Parser.docs)) (old (heap Document.ID)) (old (heap Document.Parents)) p patch))
//@                    (body (old (Document.Data patch))))
//@                (and (=> (= ts RNil) (and (not (isErr err)) (= (Parser.docs p) (rapp (old (Parser.docs p)) (RCons patch RNil)))
//@                                          (= (heap Document.Data) (old (heap Document.Data)))))
//@                     (=> (not (= ts RNil))
//@                         (and (= (heap Parser.docs) (old (heap Parser.docs)))
//@                              (=> (not (isErr err)) (appliedTo (old (heap Document.Data)) (heap Document.Data) ts body))
//@                              (=> (not (isErr err)) (= (Document.Parents patch) (rapp (old (Document.Parents patch)) ts)))
//@                              (=> (isErr err) (anyRejected (old (heap Document.Data)) ts body)))))))
//@   loop 1
//@     invariant (= (heap Parser.docs) (old (heap Parser.docs)))
//@     invariant (= (Document.Parents patch) (rapp (old (Document.Parents patch)) done))     [C02]
//@     invariant (= matched (not (= done RNil)))
//@     invariant (appliedTo (old (heap Document.Data)) (heap Document.Data) done (old (Document.Data patch)))
//@     invariant (not (anyRejected (old (heap Document.Data)) done (old (Document.Data patch))))
//@ func Parser.mergePatchMatch(p, patch) (matched, err)
//@   property C01, C03, C04, C07, C10, C12, C13, C14, C17 shallow   -- how a layer reaches its targets: a $required in one document is satisfied only by an override of THAT document (no value shared between targets), and a failing merge surfaces
//@   propagates all   [C08] [C20] [C07] [C03]
//@   property C02
//@   modifies Parser.docs, Document.Data, Document.Parents, Document.ID
//@   uses rmemApp, rdistinctApp, rappNil, rsnocApp, anyRejectedApp, wfDocsSnoc, wfDocsMono, rappAssoc
//@   requires (wfDocs (Parser.docs p) allocTop) (not (rmem patch (Parser.docs p))) (not (= patch 0))
//@   ensures (wfDocs (Parser.docs p) allocTop@post)                                                                                    [C02]
//@   ensures (forall ((r Int)) (=> (rmem r (Parser.docs p)) (or (rmem r (old (Parser.docs p))) (>= r allocTop))))                        [C02]
//@   ensures (= matched (and ((_ is VMap) (old (Document.Data patch))) (not (= (select (mc (old (Document.Data patch))) "$match") VAbsent))))          [C02]
//@   ensures (=> (not matched) (and (not (isErr err)) (= (heap Document.Data) (old (heap Document.Data)))                                          [C02]
//@                                  (= (heap Parser.docs) (old (heap Parser.docs))) (= (heap Document.Parents) (old (heap Document.Parents)))
//@                                  (= (heap Document.ID) (old (heap Document.ID)))))
//@   ensures (=> (and matched (= (select (mc (old (Document.Data patch))) "$match") VNil))                                                         [C02]
//@              (let ((body (VMap (store (mc (old (Document.Data patch))) "$match" VAbsent))))
//@                (and (not (isErr err))
//@                     (exists ((n Int)) (and (>= n allocTop) (= (Parser.docs p) (rapp (old (Parser.docs p)) (RCons n RNil)))
//@                                            (= (Document.Data n) (mergeF VNil body))
//@                                            (= (Document.Parents patch) (rapp (old (Document.Parents patch)) (RCons n RNil)))))
//@                     (forall ((r Int)) (=> (and (< r allocTop) (not (= r patch))) (= (Document.Data r) (old (Document.Data r))))))))
//@   ensures (=> (and matched (not (= (select (mc (old (Document.Data patch))) "$match") VNil)))                                                   [C02]
//@              (let ((body (VMap (store (mc (old (Document.Data patch))) "$match" VAbsent)))
//@                    (pat (select (mc (old (Document.Data patch))) "$match")))
//@              (let ((h1 (store (old (heap Document.Data)) patch body)))
//@              (let ((ts (ite (not (= (filterMatch h1 (parentsOf (old (heap Parser.docs)) (old (heap Document.ID)) (old (heap Document.Parents)) p patch) pat) RNil))
//@                             (filterMatch h1 (parentsOf (old (heap Parser.docs)) (old (heap Document.ID)) (old (heap Document.Parents)) p patch) pat)
//@                             (filterMatch h1 (old (Parser.docs p)) pat))))
//@                (and (= (heap Parser.docs) (old (heap Parser.docs)))
//@                     (=> (= ts RNil) (= err ErrNoMatchFound))
//@                     (=> (not (isErr err)) (appliedTo h1 (heap Document.Data) ts body))
//@                     (=> (not (isErr err)) (= (Document.Parents patch) (rapp (old (Document.Parents patch)) ts)))
//@                     (=> (and (isErr err) (not (= ts RNil))) (anyRejected h1 ts body)))))))
//@   loop 1
//@     invariant (= (heap Parser.docs) (old (heap Parser.docs)))
//@     invariant (= (Document.Parents patch) (rapp (old (Document.Parents patch)) done))     [C02]
//@     invariant (appliedTo (store (old (heap Document.Data)) patch (VMap (store (mc (old (Document.Data patch))) "$match" VAbsent))) (heap Document.Data) done
//@                          (VMap (store (mc (old (Document.Data patch))) "$match" VAbsent)))
//@     invariant (not (anyRejected (store (old (heap Document.Data)) patch (VMap (store (mc (old (Document.Data patch))) "$match" VAbsent))) done
//@                          (VMap (store (mc (old (Document.Data patch))) "$match" VAbsent))))
//@ func Parser.mergeFile(p, f) (err)
//@   property C01, C02, C03, C04, C07, C10, C12, C13, C14, C17 shallow   -- every property that says "... is an error" is observed through this function: a failure below it must surface (propagates)
//@   propagates all   [C08] [C20] [C07] [C03]
//@   property C02
//@   modifies Parser.docs, Document.Data, Document.Parents, Document.ID
//@   uses rmemApp, rdistinctApp, rdistinctTail
//@   requires (wfDocs (Parser.docs p) allocTop) (rdistinct (file.docs f))
//@   requires (forall ((r Int)) (=> (rmem r (file.docs f)) (and (not (= r 0)) (< r allocTop) (not (rmem r (Parser.docs p))))))
//@   ensures (wfDocs (Parser.docs p) allocTop@post)                                                                                    [C02]
//@   ensures (forall ((r Int)) (=> (rmem r (Parser.docs p)) (or (rmem r (old (Parser.docs p))) (rmem r (file.docs f)) (>= r allocTop))))   [C02]
//@   loop 1
//@     invariant (wfDocs (Parser.docs p) allocTop)
//@     invariant (forall ((r Int)) (=> (rmem r (Parser.docs p)) (or (rmem r (old (Parser.docs p))) (rmem r (file.docs f)) (>= r (old allocTop)))))
//@     invariant (= (file.docs f) (old (file.docs f)))
//@     invariant (forall ((r Int)) (=> (rmem r rest) (not (rmem r (Parser.docs p)))))
//@     invariant (>= allocTop (old allocTop))
//@ func Parser.MergeFile(p, path) (err)
//@   property C01, C02, C03, C04, C07, C10, C12, C13, C14, C17 shallow   -- every property that says "... is an error" is observed through this function: a failure below it must surface (propagates)
//@   propagates all   [C08] [C20] [C07] [C03]
//@   property C02
//@   property C03
//@   uses rmemApp, wfDocsMono
//@   requires (wfDocs (Parser.docs p) allocTop)
//@   ensures (wfDocs (Parser.docs p) allocTop@post)                                                                                    [C02]
//@   at call Parser.mergeFile#1
//@     assert (forall ((r Int)) (=> (rmem r (file.docs f)) (not (and ((_ is VMap) (Document.Data r)) (not (= (select (mc (Document.Data r)) "$parent") VAbsent))))))   [C03]
//@   loop 1
//@     invariant (forall ((r Int)) (=> (rmem r done) (not (and ((_ is VMap) (Document.Data r)) (not (= (select (mc (Document.Data r)) "$parent") VAbsent))))))
//@     invariant (and (= (heap Parser.docs) (old (heap Parser.docs))) true)
//@   modifies Parser.docs, Document.Data, Document.Parents
//@ func Parser.MergeFileLayers(p, path) (err)
//@   property C01, C02, C03, C04, C07, C10, C12, C13, C14, C17 shallow   -- every property that says "... is an error" is observed through this function: a failure below it must surface (propagates)
//@   propagates all   [C08] [C20] [C07] [C03]
//@   property C02
//@   modifies Parser.docs, Document.Data, Document.Parents
//@   uses freshDocsSplitL, freshDocsSplitR, rdistinctDisj, rmemApp, freshDocsMono, wfDocsMono
//@   requires (wfDocs (Parser.docs p) allocTop)
//@   ensures (wfDocs (Parser.docs p) allocTop@post)                                                                                    [C02]
//@   loop 1
//@     invariant (wfDocs (Parser.docs p) allocTop)
//@     invariant (<= allocTop@loop allocTop)
//@     invariant (freshDocs (allFileDocs (heap file.docs) rest) (old allocTop) allocTop@loop)
//@     invariant (forall ((r Int)) (=> (rmem r (allFileDocs (heap file.docs) rest)) (not (rmem r (Parser.docs p)))))

//@ func Parser.Output(p, format) (out, err)
//@   property C01, C02, C03, C04, C07, C10, C12, C13, C14, C17 shallow   -- every property that says "... is an error" is observed through this function: a failure below it must surface (propagates)
//@   propagates all   [C08] [C20] [C07] [C03]
//@   property C19
//@   property C05
//@   ensures (=> (= (fmtByName format) 0) (isErr err))                                                      [C05]
//@   modifies nothing
//@ func Parser.OutputDocuments(p) (res, err)
//@   property C01, C02, C03, C04, C07, C10, C12, C13, C14, C17 shallow   -- every property that says "... is an error" is observed through this function: a failure below it must surface (propagates)
//@   propagates all   [C08] [C20] [C07] [C03]
//@   property C19
//@   property C11   -- what is selected is computed from the documents as they are NOW: the method evaluates every stored document in this call and keeps nothing (frame)
//@   modifies nothing
//@   at call Parser.outputDocument#1
//@     assert (= doc@arg elem)                                                     [C11]
//@ func Parser.OutputToWriter(p, fh, format) (err)
//@   property C01, C02, C03, C04, C07, C10, C12, C13, C14, C17 shallow   -- every property that says "... is an error" is observed through this function: a failure below it must surface (propagates)
//@   property C19
//@   property C05
//@   property C20 shallow
//@   propagates all   [C20] [C05] [C08]
//@   at call Parser.Output#1
//@     assert (= format (ite (= format@pre "") "json-pretty" format@pre))                                  [C05]
//@   modifies nothing
//@ func Parser.OutputToFile(p, path, format) (err)
//@   property C01, C02, C03, C04, C07, C10, C12, C13, C14, C17 shallow   -- every property that says "... is an error" is observed through this function: a failure below it must surface (propagates)
//@   property C19
//@   property C05
//@   property C20 shallow
//@   propagates all   [C20] [C05] [C08]
//@   at call Parser.OutputToWriter#1
//@     assert (=> (not (= format@pre "")) (= format format@pre))                                           [C05]
//@   modifies nothing
//@ func Parser.Documents(p) (res)
//@   property C19
//@   modifies nothing

// ------------------------------------------------------------------------------------------------- termination: interpolation, $parent chains

//@ func process2String(obj, mergeFrom, mergeFromDocs, ec, depth) (res, err)
//@   propagates all   [C08]
//@   ensures (=> (escS obj) (and (not (isErr err)) (= res (VStr obj))))                    [C06] [C13]
//@   decreases (- 1002 depth) 1
//@   ensures (=> (and (not (and (str.prefixof "$""" obj) (str.suffixof """" obj))) (or (str.prefixof "$env:" obj) (= obj "$repeat")))      [C13] [C12]
//@              (and (= (isErr err) (= (select (mapOf (EvalContext.Vars ec)) obj) VAbsent))
//@                   (=> (isErr err) (= err ErrVariableNotFound))
//@                   (=> (not (isErr err)) (= res (select (mapOf (EvalContext.Vars ec)) obj)))))
//@   ensures (=> (and (not (and (str.prefixof "$""" obj) (str.suffixof """" obj))) (not (str.prefixof "$env:" obj)) (not (= obj "$repeat")))   [C13]
//@              (and (not (isErr err)) (= res (VStr obj))))
//@   ensures (= (isErr err) (p2sE (heap Document.Data) (Document.Data mergeFrom) mergeFromDocs (mapOf (EvalContext.Vars ec)) obj depth))          [C13]
//@   ensures (=> (not (isErr err)) (= res (p2sF (heap Document.Data) (Document.Data mergeFrom) mergeFromDocs (mapOf (EvalContext.Vars ec)) obj depth)))   [C13]
//@ func process2StringInterp(obj, mergeFrom, mergeFromDocs, ec, depth) (res, err)
//@   propagates all   [C08]
//@   decreases (- 1002 depth) 0
//@   uses sappNil, ssnocApp
//@   ensures (= (isErr err) (interpE (heap Document.Data) (Document.Data mergeFrom) mergeFromDocs (mapOf (EvalContext.Vars ec)) obj depth))       [C13]
//@   ensures (=> (not (isErr err)) (= res (interpF (heap Document.Data) (Document.Data mergeFrom) mergeFromDocs (mapOf (EvalContext.Vars ec)) obj depth)))   [C13]
//@   call verifReplaceAllStringFunc#1
//@     invariant (= (or (isErr err) (anyRefE (heap Document.Data) (Document.Data mergeFrom) mergeFromDocs (mapOf (EvalContext.Vars ec)) rest depth))
//@                  (anyRefE (heap Document.Data) (Document.Data mergeFrom) mergeFromDocs (mapOf (EvalContext.Vars ec)) (sitems matches) depth))
//@     invariant (=> (not (isErr err)) (= (sapp (sitems reps) (mapRef (heap Document.Data) (Document.Data mergeFrom) mergeFromDocs (mapOf (EvalContext.Vars ec)) rest depth))
//@                                        (mapRef (heap Document.Data) (Document.Data mergeFrom) mergeFromDocs (mapOf (EvalContext.Vars ec)) (sitems matches) depth)))

//@ func Parser.loadFile(p, path, child) (res, err)
//@   propagates all   [C08] [C20] [C07] [C03]
//@   property C18
//@   uses freshDocsSnoc, rappLen
//@   ensures (=> (not (isErr err)) (freshDocs (file.docs res) allocTop allocTop@post))                                                  [C02]
//@   ensures (= (heap Parser.docs) (old (heap Parser.docs)))
//@   ensures (=> (not (isErr err)) (= (file.id res) (ite (= child 0) path (str.++ (old (file.id child)) "|" path))))
//@   ensures (forall ((r Int)) (=> (< r allocTop) (= (file.id r) (old (file.id r)))))
//@   effects read-content:os.Root.Open, read-content:io.ReadAll, probe
//@   ensures (=> (not (isErr err)) (and (>= res allocTop) (not (= res 0))))
//@   ensures (=> (not (isErr err)) (= (file.depth res) (ite (= child 0) 0 (+ (old (file.depth child)) 1))))
//@   ensures (=> (not (isErr err)) (<= (file.depth res) 1000))
//@   ensures (=> (not (isErr err)) (= (file.root res) (Parser.rootPath p)))                                                            [C18]
//@   ensures (forall ((r Int)) (=> (< r allocTop) (= (file.root r) (old (file.root r)))))
//@   ensures (forall ((r Int)) (=> (< r allocTop) (= (file.depth r) (old (file.depth r)))))
//@   loop 1
//@     invariant (freshDocs (file.docs f) (old allocTop) allocTop)
//@     invariant (= (rllen (file.docs f)) idx)                                     [C05] [C02]
//@     invariant (and (>= f (old allocTop)) (< f allocTop))
//@     invariant (= (file.depth f) (ite (= child 0) 0 (+ (file.depth child) 1)))
//@     invariant (forall ((r Int)) (=> (< r (old allocTop)) (= (file.depth r) (old (file.depth r)))))
//@   at call NewDocumentWithData#1
//@     assert (and (=> (decShape elem) (canon doc)) (=> ((_ is VI64) elem) (= doc (VInt (lv elem)))))            [C04]
//
//@ func Document.AddParents(d, parents) ()
//@   property C02
//@   modifies Document.Parents[d]
//@   ensures (= (heap Document.Parents) (store (old (heap Document.Parents)) d (rapp (old (Document.Parents d)) parents)))        [C02]
//
//@ func file.setParents(f) ()
//@   property C02
//@   modifies Document.Parents
//@   ensures (= (heap Document.Data) (old (heap Document.Data)))
//
//@ func Parser.loadFileAndParents(p, path, child) (res, err)
//@   property C01, C02, C03, C04, C07, C10, C12, C13, C14, C17 shallow   -- every property that says "... is an error" is observed through this function: a failure below it must surface (propagates)
//@   propagates all   [C08] [C20] [C07] [C03]
//@   property C03
//@   uses rlastSnoc, allFileDocsApp, freshDocsAppRL, freshDocsAppLR, freshDocsMono, allFileDocsFrame, allBelowApp, allBelowMono, rappNil
//@   requires (=> (not (= child 0)) (>= (file.depth child) 0))
//@   ensures (=> (not (isErr err)) (= (file.id (rlast res)) (ite (= child 0) path (str.++ (old (file.id child)) "|" path))))              [C03]
//@   ensures (=> (not (isErr err)) (allBelow res allocTop allocTop@post))                                                                [C02]
//@   ensures (=> (not (isErr err)) (freshDocs (allFileDocs (heap file.docs) res) allocTop allocTop@post))                                 [C02]
//@   ensures (forall ((r Int)) (=> (< r allocTop) (= (file.docs r) (old (file.docs r)))))
//@   ensures (forall ((r Int)) (=> (< r allocTop) (= (file.id r) (old (file.id r)))))
//@   ensures (forall ((r Int)) (=> (< r allocTop) (= (file.depth r) (old (file.depth r)))))
//@   decreases (- 1001 (ite (= child 0) (- 1) (file.depth child)))
//@   loop 1
//@     invariant (forall ((r Int)) (=> (< r (old allocTop)) (= (file.depth r) (old (file.depth r)))))
//@     invariant (and (<= (file.depth f) 1000) (< f allocTop) (not (= f 0)))
//@     invariant (and (>= f (old allocTop)) (< f allocTop@loop) (<= allocTop@loop allocTop))
//@     invariant (freshDocs (file.docs f) (old allocTop) allocTop@loop)
//@     invariant (allBelow (rapp files RNil) allocTop@loop allocTop)
//@     invariant (freshDocs (allFileDocs (heap file.docs) files) allocTop@loop allocTop)
//@     invariant (forall ((r Int)) (=> (< r (old allocTop)) (= (file.docs r) (old (file.docs r)))))
//@     invariant (= (file.depth f) (ite (= child 0) 0 (+ (old (file.depth child)) 1)))
//@     invariant (= (file.id f) (ite (= child 0) path (str.++ (old (file.id child)) "|" path)))
//@     invariant (forall ((r Int)) (=> (< r (old allocTop)) (= (file.id r) (old (file.id r)))))

// termination of the $encode dispatch: "flags" expands to two transforms that are not "flags"
//@ func process2EncodeAny(obj, mergeFrom, mergeFromDocs, v, depth) (res, err)
//@   propagates all   [C08]
//@   uses flagsApp
//@   decreases (flagsIn v) (rank v) 1
//@   ensures (= (isErr err) (encAnyE obj v))                                                              [C14]
//@   ensures (=> (not (isErr err)) (= res (encAnyF obj v)))                                               [C14]
//@   loop 1
//@     invariant (= (encFoldE obj rest) (encFoldE obj@pre (ls v2)))
//@     invariant (=> (not (encFoldE obj@pre (ls v2))) (= (encFoldF obj rest) (encFoldF obj@pre (ls v2))))
//@ func process2EncodeString(obj, mergeFrom, mergeFromDocs, v, depth) (res, err)
//@   propagates all   [C08]
//@   decreases (flagsIn (VStr v)) 0 0
//@   uses appNil, snocApp, appAssoc, prefixLsnoc, sappNil, ssnocApp
//@   ensures (= (isErr err) (encStrE obj v))                                                              [C14]
//@   ensures (=> (not (isErr err)) (= res (encStrF obj v)))                                               [C14]
//@   loop 1
//@     invariant ((_ is VList) ret)
//@     invariant (= (app (ls ret) (flat1 rest)) (flat1 (ls obj2)))
//@   loop 2
//@     invariant ((_ is VList) ret)
//@     invariant (= (app (ls ret) (prefixL prefix rest)) (prefixL prefix (sitems strs)))

//@ func popListMapValue(l, k) (val, rest, err)
//@   effects closure-write:ret   -- the per-entry callback also records in ret (the loop invariants of this contract speak about it)
//@   propagates all   [C08]
//@   uses appNil, snocApp
//@   ensures (=> (not (anyKeyL (ls l) k)) (and (not (isErr err)) (= val VNil) (= rest l)))              [C06]
//@   ensures (= (isErr err) (plmvE (ls l) k VNil))                                                       [C12] [C14] [C10]
//@   ensures (=> (isErr err) (= err ErrExtraKeys))
//@   ensures (=> (not (isErr err)) (and (= val (plmvV (ls l) k VNil)) (= rest (VList (plmvR (ls l) k)))))  [C12] [C14] [C10]
//@   call filterList#1
//@     invariant ((_ is VList) ret)
//@     invariant (=> (not (anyKeyL (ls l) k)) (and (= (app (ls ret) rest) (ls l)) (= ret@outer VNil) (not (anyKeyL rest k))))   [C06]
//@     invariant (= (plmvE rest k ret@outer) (plmvE (ls l) k VNil))
//@     invariant (= (plmvV rest k ret@outer) (plmvV (ls l) k VNil))
//@     invariant (= (app (ls ret) (plmvR rest k)) (plmvR (ls l) k))

// ------------------------------------------------------------------------------------------------- document.go, evalcontext.go (allocation)

//@ func NewDocument(id) (res)
//@   preserves-existing
//@   ensures (and (>= res allocTop) (not (= res 0)))
//@   ensures (and (= (Document.ID res) id) (= (Document.Data res) VNil) (= (Document.Parents res) RNil))
//
//@ func NewDocumentWithData(id, data) (res)
//@   preserves-existing
//@   ensures (and (>= res allocTop) (not (= res 0)))
//@   ensures (and (= (Document.ID res) id) (= (Document.Data res) data) (= (Document.Parents res) RNil))
//
//@ func Document.Clone(d, suffix) (res, err)
//@   propagates all   [C08]
//@   uses rappNil, rsnocApp
//@   preserves-existing
//@   fresh
//@   ensures (not (isErr err))
//@   ensures (and (>= res allocTop) (not (= res 0)))
//@   ensures (= (Document.Data res) (old (Document.Data d)))                                                [C12]
//@   ensures (= (Document.Parents res) (old (Document.Parents d)))
//@   loop 1
//@     invariant (and (>= d2 (old allocTop)) (< d2 allocTop) (not (= d2 0)))
//@     invariant (= (Document.Data d2) (old (Document.Data d)))
//@     invariant (= (rapp (Document.Parents d2) rest) (old (Document.Parents d)))
//@     invariant (forall ((r Int)) (=> (< r (old allocTop)) (and (= (Document.Parents r) (old (Document.Parents r))) (= (Document.Data r) (old (Document.Data r))) (= (Document.ID r) (old (Document.ID r))))))
//
//@ func EvalContext.Clone(ec) (res)
//@   property C09
//@   preserves-existing
//@   ensures (and (>= res allocTop) (not (= res 0)))
//@   ensures (= (EvalContext.Vars res) (old (EvalContext.Vars ec)))                                         [C12] [C08]

// ------------------------------------------------------------------------------------------------- get.go, match.go (look-ups, C10)

//@ func matchDoc(doc, pat) (res)
//@   ensures (= res (matchS (Document.Data doc) pat))                                                        [C10] [C02]
//
//@ func toStringList(l) (res, err)
//@   propagates all   [C08]
//@   uses sappNil, ssnocApp
//@   ensures (= (isErr err) (not (allStr (ls l))))
//@   ensures (=> (not (isErr err)) (= (sitems res) (toSL (ls l))))
//@   loop 1
//@     invariant (= (allStr rest) (allStr (ls l)))
//@     invariant (= (sapp (sitems ret) (toSL rest)) (toSL (ls l)))

// ------------------------------------------------------------------------------------------------- effects (C18)
// The only places where the library opens a root handle or reads file content:

//@ func New() (res, err)
//@   propagates all   [C08]
//@   property C18
//@   ensures (=> (not (isErr err)) (and (not (= res 0)) (>= res allocTop) (= (Parser.docs res) RNil)))      [C02]
//@   effects open-root:os.OpenRoot, env
//@ func Parser.SetRoot(p, path) (err)
//@   propagates all   [C08]
//@   property C18
//@   effects open-root:os.Root.OpenRoot, probe
//@   modifies Parser.root, Parser.rootPath

// ------------------------------------------------------------------------------------------------- parser.go (stream layering, C02)

//@ func Parser.parents(p, patch) (res)
//@   property C02
//@   uses filterAncDistinct, filterAncSub, rappNil, rsnocApp
//@   requires (rdistinct (Parser.docs p))
//@   requires (forall ((r Int)) (=> (rmem r (Parser.docs p)) (not (= r 0))))
//@   ensures (= res (parentsOf (heap Parser.docs) (heap Document.ID) (heap Document.Parents) p patch))       [C02]
//@   ensures (rdistinct res)
//@   ensures (forall ((r Int)) (=> (rmem r res) (and (rmem r (Parser.docs p)) (not (= r 0)))))
//@   loop 1
//@     invariant (= (rapp ret (filterAnc (heap Document.ID) (ancIDs (heap Document.Parents) (heap Document.ID) patch) rest))
//@                  (filterAnc (heap Document.ID) (ancIDs (heap Document.Parents) (heap Document.ID) patch) (Parser.docs p)))
//
//@ func Document.AllParents(d) (res)
//@   property C02
//@   ensures (forall ((id String)) (= (not (= (select res id) 0)) (select (ancIDs (heap Document.Parents) (heap Document.ID) d) id)))    [C02]
//@   ensures (forall ((id String)) (=> (not (= (select res id) 0)) (= (Document.ID (select res id)) id)))
//
//@ func Document.allParents(d, parents) ()
//@   property C02
//@   uses ancViaApp
//@   mutates parents
//@   requires (forall ((id String)) (=> (not (= (select parents id) 0)) (= (Document.ID (select parents id)) id)))
//@   ensures (forall ((id String)) (= (not (= (select parents@post id) 0))                                                                [C02]
//@              (or (not (= (select parents id) 0)) (select (ancIDs (heap Document.Parents) (heap Document.ID) d) id))))
//@   ensures (forall ((id String)) (=> (not (= (select parents@post id) 0)) (= (Document.ID (select parents@post id)) id)))
//@   loop 1
//@     invariant (forall ((id String)) (= (not (= (select parents id) 0))
//@                  (or (not (= (select parents@pre id) 0)) (ancVia (heap Document.Parents) (heap Document.ID) done id))))
//@     invariant (forall ((id String)) (=> (not (= (select parents id) 0)) (= (Document.ID (select parents id)) id)))
//@   loop 2
//@     invariant (forall ((id String)) (= (select parents id)
//@                  (ite (select visited id) (select ranged id) (select parents@loop id))))
//
//@ func Document.DataAsMap(d) (res)
//@   ensures (= res (ite ((_ is VMap) (Document.Data d)) (Document.Data d) VNil))
//
//@ func Document.PopMapValue(d, key) (found, val)
//@   modifies Document.Data[d]
//@   ensures (= found (and ((_ is VMap) (old (Document.Data d))) (not (= (select (mc (old (Document.Data d))) key) VAbsent))))   [C02]
//@   ensures (=> found (and (= val (select (mc (old (Document.Data d))) key))
//@                          (= (heap Document.Data) (store (old (heap Document.Data)) d (VMap (store (mc (old (Document.Data d))) key VAbsent))))))
//@   ensures (=> (not found) (= (heap Document.Data) (old (heap Document.Data))))
//
//@ func Parser.findMatches(p, doc, pat) (res)
//@   uses filterMatchDistinct, filterMatchSub, rappNil, rsnocApp
//@   requires (rdistinct (Parser.docs p))
//@   requires (forall ((r Int)) (=> (rmem r (Parser.docs p)) (not (= r 0))))
//@   ensures (= res (ite (not (= (filterMatch (heap Document.Data) (parentsOf (heap Parser.docs) (heap Document.ID) (heap Document.Parents) p doc) pat) RNil))   [C02]
//@                       (filterMatch (heap Document.Data) (parentsOf (heap Parser.docs) (heap Document.ID) (heap Document.Parents) p doc) pat)
//@                       (filterMatch (heap Document.Data) (Parser.docs p) pat)))
//@   ensures (rdistinct res)
//@   ensures (forall ((r Int)) (=> (rmem r res) (rmem r (Parser.docs p))))
//@   loop 2
//@     invariant (= (rapp ret (filterMatch (heap Document.Data) rest pat)) (rapp ret@loop (filterMatch (heap Document.Data) ds pat)))

//@ func yamlTranslateNode(node, depth) (res, err)
//@   property C15, C16, C17, C20   -- the tools read their inputs and write their result through these codecs (reached through the format table, not a static call)
//@   property C14   -- what $decode: yaml makes of every scalar
//@   propagates all   [C08]
//@   uses canonApp
//@   ensures (=> (not (isErr err)) (canon res))                                                              [C04]
// scalars (yaml.ScalarNode = 8): the resolved tag alone decides the type; strings and timestamps are kept as text
//@   ensures (=> (and (< depth 1000) (= (Node.Kind node) 8) (or (= (yamlShortTag node) "!!str") (= (yamlShortTag node) "!!timestamp")))   [C04] [C05]
//@              (and (not (isErr err)) (= res (VStr (Node.Value node)))))
//@   ensures (=> (and (< depth 1000) (= (Node.Kind node) 8) (= (yamlShortTag node) "!!null")) (and (not (isErr err)) (= res VNil)))      [C04] [C05]
//@   ensures (=> (and (< depth 1000) (= (Node.Kind node) 8) (= (yamlShortTag node) "!!bool"))                                             [C04] [C05]
//@              (and (= err (parseBoolE (Node.Value node))) (=> (not (isErr err)) (= res (VBool (parseBoolV (Node.Value node)))))))
//@   ensures (=> (and (< depth 1000) (= (Node.Kind node) 8) (= (yamlShortTag node) "!!int"))                                              [C04] [C05]
//@              (and (= err (parseIntE (Node.Value node) 10 64)) (=> (not (isErr err)) (= res (VInt (parseIntV (Node.Value node) 10 64))))))
//@   ensures (=> (and (< depth 1000) (= (Node.Kind node) 8) (= (yamlShortTag node) "!!float"))                                            [C04] [C05]
//@              (and (= err (parseFloatE (Node.Value node) 64)) (=> (not (isErr err)) (= res (VFlt (parseFloatV (Node.Value node) 64))))))
//@   decreases (- 1002 depth)
//@   loop 1
//@     invariant (and ((_ is VList) ret) (canonL (ls ret)))
//@   loop 2
//@     invariant (and ((_ is VMap) ret) (canon ret))
//@   loop 3
//@     invariant (and ((_ is VMap) ret) (canon ret))

// ------------------------------------------------------------------------------------------------- normalize.go, process2.go (canonical numbers, C04)

//@ func normalize(obj) (res, err)
//@   propagates all   [C08]
//@   decreases (rank obj) 3
//@   ensures (=> ((_ is VNum) obj) (or (isErr err) ((_ is VInt) res) ((_ is VFlt) res)))                     [C04]
//@   ensures (=> ((_ is VI64) obj) (and (not (isErr err)) (= res (VInt (lv obj)))))                          [C04] [C01]
//@   ensures (=> (and (not (isErr err)) (decShape obj)) (canon res))                                         [C04]
//@   ensures (=> (canon obj) (and (not (isErr err)) (= res obj)))                                            [C04]
//
//@ func normalizeMap(obj) (res, err)
//@   propagates all   [C08]
//@   ensures (=> (not (isErr err)) ((_ is VMap) res))                               [C08]
//@   decreases (rank obj) 1
//@   requires ((_ is VMap) obj)
//@   ensures (=> (and (not (isErr err)) (decShape obj)) (canon res))                                         [C04]
//@   ensures (=> (canon obj) (and (not (isErr err)) (= res obj)))                                            [C04]
//@   call filterMap#1
//@     invariant ((_ is VMap) ret)
//@     invariant (=> (decShape m) (forall ((j String)) (=> (not (= (select (mc ret) j) VAbsent)) (canon (select (mc ret) j)))))
//@     invariant (=> (canon m) (forall ((j String)) (= (select (mc ret) j) (ite (select visited j) (select (mc m) j) VAbsent))))
//
//@ func normalizeList(obj) (res, err)
//@   propagates all   [C08]
//@   decreases (rank obj) 1
//@   uses canonApp, appNil, snocApp
//@   ensures (=> (and (not (isErr err)) (decShape obj)) (canon res))                                         [C04]
//@   ensures (=> (canon obj) (and (not (isErr err)) (= res obj)))                                            [C04]
//@   call filterList#1
//@     invariant ((_ is VList) ret)
//@     invariant (=> (decShapeL (ls l)) (and (canonL (ls ret)) (decShapeL rest)))
//@     invariant (=> (canonL (ls l)) (and (= (app (ls ret) rest) (ls l)) (canonL rest)))
//
//@ func normalizeListMap(obj) (res, err)
//@   propagates all   [C08]
//
//@ func normalizeNumber(obj) (res, err)
//@   propagates all   [C08]
//@   ensures (=> (not (isErr err)) (or ((_ is VInt) res) ((_ is VFlt) res)))                                 [C04]
//@   ensures (=> (not (isErr (numInt64E obj))) (and (not (isErr err)) (= res (VInt (numInt64 obj)))))        [C04] [C05] [C01]
//@   ensures (=> (isErr (numInt64E obj)) (and (= err (numFloatE obj)) (=> (not (isErr err)) (= res (VFlt (numFloat obj))))))   [C04] [C05]

// ------------------------------------------------------------------------------------------------- evalcontext.go, process2.go, get.go ($env / variables, C13)

//@ func envVars() (res)
//@   ensures ((_ is VMap) res)                                                                               [C08]   -- never a nil map: every $repeat writes into a clone of it
//@   ensures (= res (VMap (envFold emptyM osEnviron)))                                                       [C13]
//@   loop 1
//@     invariant ((_ is VMap) vars)
//@     invariant (= (envFold (mc vars) rest) (envFold emptyM osEnviron))
//
//@ func EvalContext.GetVar(ec, name) (res, err)
//@   propagates all   [C08]
//@   ensures (= (isErr err) (= (select (mapOf (EvalContext.Vars ec)) name) VAbsent))                         [C13]
//@   ensures (=> (isErr err) (= err ErrVariableNotFound))                                                    [C13]
//@   ensures (=> (not (isErr err)) (= res (select (mapOf (EvalContext.Vars ec)) name)))                      [C13] [C12]
//
//@ func getWithVar(doc, docs, ec, m) (res, err)
//@   propagates EvalContext.GetVar#1   [C08] [C13]   -- a failing path look-up is NOT a failure: the variable table is tried next
//@   borrowed
//@   ensures (=> ((_ is VStr) m)                                                                             [C13]
//@              (and (= (isErr err) (gwvE (heap Document.Data) (Document.Data doc) docs (mapOf (EvalContext.Vars ec)) (sv m)))
//@                   (=> (not (isErr err)) (= res (gwvF (heap Document.Data) (Document.Data doc) docs (mapOf (EvalContext.Vars ec)) (sv m))))))

// ------------------------------------------------------------------------------------------------- process2.go ($encode helpers, C14)

//@ func toStringListPermissive(v) (res, err)
//@   propagates all   [C08]
//@   uses sappNil, ssnocApp
//@   ensures (= (isErr err) (not ((_ is VList) v)))                                                          [C14]
//@   ensures (=> (isErr err) (= err ErrInvalidType))
//@   ensures (=> (not (isErr err)) (= (sitems res) (fmtvL (ls v))))                                                   [C14]
//@   loop 1
//@     invariant (= (sapp (sitems ret) (fmtvL rest)) (fmtvL (ls v2)))
//
//@ func process2ToListValue(k, delim, v) (res)
//@   ensures (= (VStr res) (tolistVal k delim v))                                                            [C14]
//
//@ func process2ToListMap(obj, delim) (res, err)
//@   propagates all   [C08]
//@   uses appNil, snocApp, appAssoc
//@   ensures (= (isErr err) (not ((_ is VMap) obj)))                                                         [C14]
//@   ensures (=> (isErr err) (= err ErrInvalidType))
//@   ensures (=> (not (isErr err)) (= res (VList (tolistMap obj delim))))                                    [C14]
//@   loop 1
//@     invariant ((_ is VList) ret)
//@     invariant (= (app (ls ret) (tolistK (mc obj2) rest delim)) (tolistK (mc obj2) (sortedKeys (mc obj2)) delim))
//@   loop 2
//@     invariant ((_ is VList) ret)
//@     invariant (= (app (ls ret) (tolistVals k delim rest)) (app (ls ret@loop) (tolistVals k delim (ls v2))))
//
//@ func process2ToListList(obj, delim) (res, err)
//@   propagates all   [C08]
//@   uses appNil, appAssoc
//@   ensures (= (isErr err) (not (allMaps (ls obj))))                                                        [C14]
//@   ensures (=> (not (isErr err)) (= res (VList (tolistL (ls obj) delim))))                                 [C14]
//@   loop 1
//@     invariant ((_ is VList) ret)
//@     invariant (= (allMaps rest) (allMaps (ls obj)))
//@     invariant (= (app (ls ret) (tolistL rest delim)) (tolistL (ls obj) delim))
//
//@ func process2ValuesMap(obj) (res, err)
//@   propagates all   [C08]
//@   uses appNil, snocApp
//@   ensures (not (isErr err))
//@   ensures (= res (VList (valuesK (mapOf obj) (sortedKeys (mapOf obj)))))                                  [C14]
//@   loop 1
//@     invariant ((_ is VList) vals)
//@     invariant (= (app (ls vals) (valuesK (mapOf obj) rest)) (valuesK (mapOf obj) (sortedKeys (mapOf obj))))

//@ func GetFormat(name) (res, err)
//@   propagates all   [C08]
//@   ensures (= (isErr err) (= (fmtByName name) 0))
//@   ensures (=> (isErr err) (= err ErrUnknownFormat))
//@   ensures (=> (not (isErr err)) (= res (fmtByName name)))

// ------------------------------------------------------------------------------------------------- file.go, filepath.go (layer resolution, C03)

//@ func findFile(path) (res)
//@   effects probe:os.Stat
//@   property C03, C20
//@   ensures (= res (findFileF path))                                                                                    [C03] [C20]
//@   loop 1
//@     invariant (forall ((j String)) (=> (select visited j) (fileMissing (str.++ path "." j))))
//
//@ func isStdin(path) (res)
//@   ensures (= res (isStdinF path))
//
//@ func ext(path) (res)
//@   ensures (= res (extOf path))
//@   ensures (= (extOK path) (not (= (fmtByName res) 0)))
//
//@ func FileMatch(path) (real, format, err)
//@   propagates all   [C08] [C20] [C07] [C03]
//@   property C20, C05
//@   ensures (=> (not (extOK path)) (= err ErrInvalidType))                                                              [C20] [C05]
//@   ensures (=> (and (extOK path) (= (pathBase (trimSuffix path (str.++ "." (extOf path)))) "-"))                       [C20] [C05]
//@              (and (not (isErr err)) (= real path) (= format (extOf path))))
//@   ensures (=> (and (extOK path) (not (= (pathBase (trimSuffix path (str.++ "." (extOf path)))) "-")))                 [C20] [C05]
//@              (ite (= (findFileF (trimSuffix path (str.++ "." (extOf path)))) "")
//@                   (= err ErrMissingFile)
//@                   (and (not (isErr err)) (= real (findFileF (trimSuffix path (str.++ "." (extOf path))))) (= format (extOf path)))))
//
//@ func file.parentsFromFilename(f) (res, err)
//@   property C18, C04 shallow   -- (C04: which layers a NAME inherits from must not depend on the extension the layer is written in) an attempt to reach a layer outside the root must FAIL, whatever exists there: which names are parents, and that a name without a file is an error and not "no parents", is decided here
//@   propagates all   [C08]
//@   property C03
//@   ensures (=> (isStdinF (file.path f)) (and (not (isErr err)) (= res (Slice SNil))))                                                            [C03]
//@   ensures (=> (and (not (isStdinF (file.path f))) (< (sllen (strSplit (pathBase (file.path f)) ".")) 2)) (= err ErrInvalidFilename))     [C03]
//@   ensures (=> (and (not (isStdinF (file.path f))) (= (sllen (strSplit (pathBase (file.path f)) ".")) 2)) (and (not (isErr err)) (= res (Slice SNil))))   [C03]
//@   ensures (=> (and (not (isStdinF (file.path f))) (> (sllen (strSplit (pathBase (file.path f)) ".")) 2))                                [C03]
//@              (ite (= (findFileF (parentLayerPath (file.path f))) "")
//@                   (= err ErrMissingFile)
//@                   (and (not (isErr err)) (= res (Slice (SCons (findFileF (parentLayerPath (file.path f))) SNil))))))
//@   ensures (and (= (isErr err) (fnE (file.path f))) (=> (not (isErr err)) (= res (fnS (file.path f)))))                                   [C03] [follows]
//
//@ func globFiles(path) (res, err)
//@   propagates all   [C08]
//@   effects probe:filepath.Glob
//@   property C03
//@   uses allDotsApp, sappNil, ssnocApp
//@   ensures (=> (not (isErr err)) (allDots (sitems res) (strCount (str.++ path ".*") ".")))                                                        [C03]
//@   ensures (= (isErr err) (globE path))                                                                                                   [C03]
//@   ensures (=> (not (isErr err)) (= res (Slice (globF path))))                                                                            [C03]
//@   loop 1
//@     invariant (allDots (sitems ret) patDots)
//@     invariant ((_ is Slice) ret)
//@     invariant (= (sapp (sitems ret) (globSel rest patDots)) (globSel (sitems matches) patDots))
//
//@ func file.insideRoot(f, paths) (res)
//@   property C18, C03
//@   effects probe:filepath.EvalSymlinks
//@   uses sappNil, ssnocApp
//@   ensures (= res (Slice (visL (file.root f) (sitems paths))))                                                                             [C18] [C03]
//@   loop 1
//@     invariant ((_ is Slice) ret)
//@     invariant (= (sapp (sitems ret) (visL (file.root f) rest)) (visL (file.root f) (sitems paths)))
//
//@ func file.toAbsolutePaths(f, paths) (res, err)
//@   propagates all   [C08] [C20] [C07] [C03]
//@   property C03
//@   uses sappNil, sappAssoc, absListVis
//@   ensures (= (isErr err) (absBad (file.root f) (pathDir (file.path f)) (sitems paths)))                                                                [C03] [C18]
//@   ensures (=> (not (isErr err)) (= res (Slice (absList (file.root f) (pathDir (file.path f)) (sitems paths)))))                                        [C03] [C18]
//@   ensures (=> (not (isErr err)) (allVis (file.root f) (sitems res)))                                                                      [C18] [follows]
//@   loop 1
//@     invariant ((_ is Slice) ret)
//@     invariant (= (absBad (file.root f) (pathDir (file.path f)) rest) (absBad (file.root f) (pathDir (file.path f)) (sitems paths)))
//@     invariant (= (sapp (sitems ret) (absList (file.root f) (pathDir (file.path f)) rest)) (absList (file.root f) (pathDir (file.path f)) (sitems paths)))
//
//@ func file.parentsFromSymlink(f) (res, err)
//@   property C18, C04 shallow   -- (C04: which layers a NAME inherits from must not depend on the extension the layer is written in) an attempt to reach a layer outside the root must FAIL, whatever exists there: which names are parents, and that a name without a file is an error and not "no parents", is decided here
//@   propagates all   [C08]
//@   effects probe:filepath.EvalSymlinks
//@   property C03
//@   modifies file.path[f]
//@   ensures (=> (isStdinF (old (file.path f))) (and (not (isErr err)) (= res SliceNil) (= (file.path f) (old (file.path f)))))             [C03]
//@   ensures (=> (and (not (isStdinF (old (file.path f)))) (isErr (evalSymlinksE (old (file.path f))))) (isErr err))                        [C03]
//@   ensures (=> (and (not (isStdinF (old (file.path f)))) (not (isErr (evalSymlinksE (old (file.path f)))))                                [C03]
//@                    (= (evalSymlinksF (old (file.path f))) (old (file.path f))))
//@              (and (not (isErr err)) (= res SliceNil) (= (file.path f) (old (file.path f)))))
//@   ensures (=> (and (not (isStdinF (old (file.path f)))) (not (isErr (evalSymlinksE (old (file.path f)))))                                [C03]
//@                    (not (= (evalSymlinksF (old (file.path f))) (old (file.path f)))))
//@              (and (= (isErr err) (fnE (evalSymlinksF (old (file.path f)))))
//@                   (=> (not (isErr err)) (= res (fnS (evalSymlinksF (old (file.path f))))))))
//@   ensures (and (= (isErr err) (symE (old (file.path f)))) (=> (not (isErr err)) (= res (symS (old (file.path f))))))                    [C03]
//@   ensures (=> (and (not (isErr err)) (= res SliceNil)) (= (file.path f) (old (file.path f))))                                           [C03]
//

//@ func file.parentsFromDirective(f) (res, err)
//@   property C18, C04 shallow   -- (C04: which layers a NAME inherits from must not depend on the extension the layer is written in) an attempt to reach a layer outside the root must FAIL, whatever exists there: which names are parents, and that a name without a file is an error and not "no parents", is decided here
//@   propagates all   [C08]
//@   property C03
//@   uses sappNil, sappAssoc, ssnocApp, rdistinctApp, rmemApp
//@   requires (rdistinct (file.docs f))
//@   requires (forall ((r Int)) (=> (rmem r (file.docs f)) (not (= r 0))))
//@   ensures (= (isErr err) (dirE (old (heap Document.Data)) (file.docs f) (file.root f) (pathDir (file.path f))))                                       [C03]
//@   ensures (=> (not (isErr err)) (= res (dirS (old (heap Document.Data)) (file.docs f) (file.root f) (pathDir (file.path f)))))                        [C03]
//@   loop 1
//@     invariant ((_ is Slice) parents)
//@     invariant (forall ((r Int)) (=> (not (rmem r done)) (= (Document.Data r) (old (Document.Data r)))))
//@     invariant (= (dirBad (old (heap Document.Data)) rest) (dirBad (old (heap Document.Data)) (file.docs f)))
//@     invariant (= (or noParent (dirNo (old (heap Document.Data)) rest)) (dirNo (old (heap Document.Data)) (file.docs f)))
//@     invariant (= (sapp (sitems parents) (dirStrs (old (heap Document.Data)) rest)) (dirStrs (old (heap Document.Data)) (file.docs f)))
//
//@ func file.parents(f) (res, err)
//@   property C18, C04 shallow   -- (C04: which layers a NAME inherits from must not depend on the extension the layer is written in) an attempt to reach a layer outside the root must FAIL, whatever exists there: which names are parents, and that a name without a file is an error and not "no parents", is decided here
//@   propagates all   [C08] [C20] [C07] [C03]
//@   property C03
//@   requires (rdistinct (file.docs f))
//@   requires (forall ((r Int)) (=> (rmem r (file.docs f)) (not (= r 0))))
//@   ensures (= (isErr err) (parentsE (old (heap Document.Data)) (file.docs f) (file.root f) (old (file.path f))))                                       [C03]
//@   ensures (=> (not (isErr err)) (= res (parentsS (old (heap Document.Data)) (file.docs f) (file.root f) (old (file.path f)))))                        [C03]
//@   ensures (= (file.docs f) (old (file.docs f)))

//@ func NewEvalContext() (res)
//@   property C09
//@   preserves-existing
//@   ensures (and (>= res allocTop) (not (= res 0)))
//@   ensures ((_ is VMap) (EvalContext.Vars res))                                                            [C08]
//@   ensures (= (EvalContext.Vars res) (VMap (envFold emptyM osEnviron)))                                    [C09] [C13]

// ------------------------------------------------------------------------------------------------- toml.go, yaml.go, json.go (stream framing, C05)

//@ func tomlMarshalStream(vs) (res, err)
//@   property C15, C16, C17, C20   -- the tools read their inputs and write their result through these codecs (reached through the format table, not a static call)
//@   propagates all   [C08]
//@   property C05, C14   -- $encode: <format> / $decode: <format> run these codecs (reached through the format table, not a static call)
//@   ensures (= (isErr err) (seqEncErr codecTOML (ls vs) 0))                                                 [C05]
//@   ensures (=> (not (isErr err)) (= res (tomlFrame codecTOML (ls vs) 0)))                                  [C05]
//@   loop 1
//@     invariant (= first (= idx 0))
//@     invariant (= (encoded enc) idx)
//@     invariant (= (str.++ (content buf) (tomlFrame codecTOML rest idx)) (tomlFrame codecTOML (ls vs) 0))
//@     invariant (= (seqEncErr codecTOML rest idx) (seqEncErr codecTOML (ls vs) 0))
//
//@ func tomlUnmarshalStream(in) (res, err)
//@   property C15, C16, C17, C20   -- the tools read their inputs and write their result through these codecs (reached through the format table, not a static call)
//@   propagates all   [C08]
//@   property C05, C04, C14   -- $encode: <format> / $decode: <format> run these codecs (reached through the format table, not a static call)
//@   uses appNil, snocApp
//@   ensures (= (isErr err) (tomlDecE (reSplit (rePat tomlRE) in (- 1))))                                    [C05]
//@   ensures (=> (not (isErr err)) (= res (VList (tomlDecF (reSplit (rePat tomlRE) in (- 1))))))             [C05]
//@   loop 1
//@     invariant ((_ is VList) ret)
//@     invariant (= (tomlDecE rest) (tomlDecE (reSplit (rePat tomlRE) in (- 1))))
//@     invariant (= (app (ls ret) (tomlDecF rest)) (tomlDecF (reSplit (rePat tomlRE) in (- 1))))
//
//@ func yamlUnmarshalStream(in) (res, err)
//@   property C15, C16, C17, C20   -- the tools read their inputs and write their result through these codecs (reached through the format table, not a static call)
//@   propagates all   [C08]
//@   property C05, C04, C14   -- $encode: <format> / $decode: <format> run these codecs (reached through the format table, not a static call)
//@   uses appLen
//@   ensures (=> (not (isErr err)) (= (llen (ls res)) (sllen (reSplit (rePat yamlRE) in (- 1)))))           [C05]
//@   loop 1
//@     invariant ((_ is VList) ret)
//@     invariant (= (+ (llen (ls ret)) (sllen rest)) (sllen (reSplit (rePat yamlRE) in (- 1))))
//
//@ func jsonUnmarshalStream(in) (res, err)
//@   property C15, C16, C17, C20   -- the tools read their inputs and write their result through these codecs (reached through the format table, not a static call)
//@   propagates all   [C08]
//@   property C05, C04, C14   -- $encode: <format> / $decode: <format> run these codecs (reached through the format table, not a static call)
//@   uses appNil, snocApp
//@   ensures (= (isErr err) (not (= (decE (cfg_UseNumber codecJSONdec) in (decCount (cfg_UseNumber codecJSONdec) in)) ioEOF)))        [C05] [C04]
//@   ensures (=> (not (isErr err)) (= res (VList (jsonReadF (cfg_UseNumber codecJSONdec) in 0))))                                 [C05] [C04]
//@   loop 1
//@     invariant ((_ is VList) ret)
//@     invariant (= (codecOf dec) (cfg_UseNumber codecJSONdec))
//@     invariant (and (<= 0 (encoded dec)) (<= (encoded dec) (decCount (cfg_UseNumber codecJSONdec) in)))
//@     invariant (= (app (ls ret) (jsonReadF (cfg_UseNumber codecJSONdec) in (encoded dec))) (jsonReadF (cfg_UseNumber codecJSONdec) in 0))
//@     decreases (- (decCount (cfg_UseNumber codecJSONdec) in) (encoded dec))
//
//@ regexp tomlRE
//@   property C05
//@   lines tomlSepLine
//@   accepts "---"
//
//@ regexp yamlRE
//@   property C05
//@   lines yamlSepLine
//@   accepts "---"
//
//@ func jsonMarshalStream(vs) (res, err)
//@   property C15, C16, C17, C20   -- the tools read their inputs and write their result through these codecs (reached through the format table, not a static call)
//@   propagates all   [C08]
//@   property C05, C14   -- $encode: <format> / $decode: <format> run these codecs (reached through the format table, not a static call)
//@   ensures (exists ((c Int)) (and (= (isErr err) (seqEncErr c (ls vs) 0)) (=> (not (isErr err)) (= res (jsonFrame c (ls vs) 0)))))   [C05]
//@   loop 1
//@     invariant (= (encoded enc) idx)
//@     invariant (= (str.++ (content buf) (jsonFrame (codecOf enc) rest idx)) (jsonFrame (codecOf enc) (ls vs) 0))
//@     invariant (= (seqEncErr (codecOf enc) rest idx) (seqEncErr (codecOf enc) (ls vs) 0))
//
//@ func jsonMarshalStreamPretty(vs) (res, err)
//@   property C15, C16, C17, C20   -- the tools read their inputs and write their result through these codecs (reached through the format table, not a static call)
//@   propagates all   [C08]
//@   property C05, C14   -- $encode: <format> / $decode: <format> run these codecs (reached through the format table, not a static call)
//@   ensures (exists ((c Int)) (and (= (isErr err) (seqEncErr c (ls vs) 0)) (=> (not (isErr err)) (= res (jsonFrame c (ls vs) 0)))))   [C05]
//@   loop 1
//@     invariant (= (encoded enc) idx)
//@     invariant (= (str.++ (content buf) (jsonFrame (codecOf enc) rest idx)) (jsonFrame (codecOf enc) (ls vs) 0))
//@     invariant (= (seqEncErr (codecOf enc) rest idx) (seqEncErr (codecOf enc) (ls vs) 0))
//
//@ func yamlMarshalStream(vs) (res, err)
//@   property C15, C16, C17, C20   -- the tools read their inputs and write their result through these codecs (reached through the format table, not a static call)
//@   propagates all   [C08]
//@   property C05, C14   -- $encode: <format> / $decode: <format> run these codecs (reached through the format table, not a static call)
//@   ensures (exists ((c Int)) (and (= (isErr err) (yamlEncErr c (ls vs) 0)) (=> (not (isErr err)) (= res (yamlFrame c (ls vs) 0 0)))))   [C05]
//@   loop 1
//@     invariant (= first (= idx 0))
//@     invariant (>= (encoded enc) 0)
//@     invariant (= (str.++ (content buf) (yamlFrame (codecOf enc) rest idx (encoded enc))) (yamlFrame (codecOf enc) (ls vs) 0 0))
//@     invariant (= (yamlEncErr (codecOf enc) rest (encoded enc)) (yamlEncErr (codecOf enc) (ls vs) 0))
