//go:build verif

// Contracts for package wrapper (comment-only; read by /verif/bin/bklverif).
package wrapper

//@ func WrapOrDie(cmd) ()
//@   property C20
//@   propagates New#1, Parser.MergeFileLayers#1, Parser.OutputToFile#1   [C20] [C08]
//@   uses sappLen, slsetLen
//@   loop 1
//@     invariant (= (sllen (sitems args)) (sllen (sitems args@loop)))
