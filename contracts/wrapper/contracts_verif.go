//go:build verif

// Contracts for package wrapper (comment-only; read by /verif/bin/bklverif).
package wrapper

//@ func WrapOrDie(cmd) ()
//@   uses sappLen, slsetLen
//@   loop 1
//@     invariant (= (sllen (sitems args)) (sllen (sitems args@loop)))
