//go:build verif

// Contracts for cmd/bklb (comment-only; read by /verif/bin/bklverif).
package main

// bklb runs the program whose name is its own name with exactly one trailing "b" removed (kubectlb -> kubectl,
// gdbb -> gdb); run under a name without that suffix it prints the usage and fails (C20).
//@ func main() ()
//@   property C20
//@   at call WrapOrDie#1
//@     assert (and (str.suffixof "b" (pathBase (shd (sitems g_os_Args))))                                    [C20]
//@                 (= cmd@arg (trimSuffix (pathBase (shd (sitems g_os_Args))) "b")))
