//go:build verif

// Contracts for cmd/bkli (comment-only; read by /verif/bin/bklverif).
package main

//@ func intersect(a, b) (res, err)
//@   decreases (rank a) 2
//@ func intersectMap(a, b) (res, err)
//@   decreases (rank a) 1
//@ func intersectMapMap(a, b) (res, err)
//@   decreases (rank a) 0
