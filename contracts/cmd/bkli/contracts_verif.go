//go:build verif

// Contracts for cmd/bkli (comment-only; read by /verif/bin/bklverif).
package main

// The common base of all inputs is the left fold of intersect over the inputs in command-line order: the first input
// is taken as it is, every later one is intersected with what was accumulated so far (C16).
//@ func main() ()
//@   propagates all   [C08] [C16]
//@   property C16
//@   at call intersect#1
//@     assert (and (= (rllen docs) 1) (= a@arg (Document.Data (rlnth docs 0))) (= b@arg doc))               [C16]
//@   at call Parser.MergeFileLayers#1
//@     assert (= path@arg realPath)                                                                         [C16]
//@   at call FileMatch#1
//@     assert (= path@arg elem)                                                                             [C16]
//@   loop 1
//@     transition (= doc (ite (= idx@iter 0) (Document.Data (rlnth docs 0)) (interF (Document.Data (rlnth docs 0)) doc@iter)))   [C16]
//
//@ func intersect(a, b) (res, err)
//@   propagates all   [C08]
//@   ensures (not (isErr err))
//@   ensures (= res (interF a b))                                                  [C16]
//@   ensures (=> (= a b) (= res a))                                                [C16]
//@   decreases (rank a) 2
//
//@ func intersectMap(a, b) (res, err)
//@   propagates all   [C08]
//@   requires ((_ is VMap) a) (not (= b VNil))
//@   ensures (not (isErr err))
//@   ensures (= res (interF a b))                                                  [C16]
//@   ensures (=> (= a b) (= res a))                                                [C16]
//@   decreases (rank a) 1
//
//@ func intersectMapMap(a, b) (res, err)
//@   propagates all   [C08]
//@   ensures ((_ is VMap) res)                                                      [C08]
//@   requires ((_ is VMap) a) ((_ is VMap) b)
//@   ensures (not (isErr err))
//@   ensures (= res (interF a b))                                                  [C16]
//@   ensures (=> (= a b) (= res a))                                                [C16]
//@   decreases (rank a) 0
//@   loop 1
//@     invariant ((_ is VMap) ret)
//@     invariant (forall ((j String)) (=> (select visited j) (interEnt (select (mc a) j) (select (mc b) j) (select (mc ret) j))))
//@     invariant (forall ((j String)) (=> (not (select visited j)) (= (select (mc ret) j) VAbsent)))
//@     invariant (=> (= a b) (forall ((j String)) (=> (select visited j) (= (select (mc ret) j) (select (mc a) j)))))
//
//@ func intersectList(a, b) (res, err)
//@   propagates all   [C08]
//@   requires (not (= b VNil))
//@   ensures (not (isErr err))
//@   ensures (= res (interF a b))                                                  [C16]
//@   ensures (=> (= a b) (= res a))                                                [C16]
//
//@ func intersectListList(a, b) (res, err)
//@   propagates all   [C08]
//@   uses appNil, snocApp, keepAll, allInRefl
//@   ensures (not (isErr err))
//@   ensures (= res (interF a b))                                                  [C16]
//@   ensures (=> (= a b) (= res a))                                                [C16]
//@   loop 1
//@     invariant ((_ is VList) ret)
//@     invariant (= (app (ls ret) (keepCommon rest (ls b))) (keepCommon (ls a) (ls b)))
//@   loop 2
//@     invariant (= ret ret@loop)
//@     invariant (= (lmem v1 rest) (lmem v1 (ls b)))
