//go:build verif

// Contracts for cmd/bkld (comment-only; read by /verif/bin/bklverif).
package main

// The round trip of the property statement, with the same mergeF/mergeErr that merge is proved against (C01):
//   diff(target, base) = nil          =>  target = base
//   diff(target, base) = layer != nil =>  bkl accepts the layer over base and the result is the target
// for "$"-free, null-free targets outside the classes of finding F13 (kindBad).

// main: the layer is diff(target, base) - the evaluated TARGET document against the evaluated BASE document, in that
// order - decorated by diffDoc with "$match: {}" so that it applies to the base document whatever else is in the stream.
//@ func main() ()
//@   propagates all   [C08] [C15]
//@   property C15
//@   at call diffDoc#1
//@     assert (and (= dst@arg targetDoc) (= src@arg baseDoc))                                                  [C15]
//@   at call Document.Process#1
//@     assert (= d@arg baseDoc)                                                                                [C15]
//@   at call Document.Process#2
//@     assert (= d@arg targetDoc)                                                                              [C15]
//
//@ func getOnlyDocument(path) (doc, format, err)
//@   property C15
//@   propagates all   [C15] [C08]
//
//@ func diffDoc(dst, src) (res, err)
//@   propagates all   [C08]
//@   property C15
//@   requires (plainT (Document.Data dst))
//@   ensures (not (isErr err))
//@   ensures (=> (= (Document.Data dst) (Document.Data src)) (= res VNil))                                    [C15]
//@   ensures (=> ((_ is VMap) res) (= (select (mc res) "$match") (VMap emptyM)))                              [C15]
//
//@ func diff(dst, src) (res, err)
//@   propagates all   [C08]
//@   requires (plainT dst)
//@   ensures (not (isErr err))
//@   ensures (=> (not (kindBad dst src)) (=> (= res VNil) (= dst src)))                                       [C15]
//@   ensures (=> (not (kindBad dst src)) (=> (not (= res VNil)) (and (not (mergeErr src res)) (= (mergeF src res) dst))))   [C15] [C16]
//@   ensures (not (= res (VStr "$delete")))
//@   ensures (=> (= dst src) (= res VNil))                                                                    [C15]
//@   decreases (rank dst) 2
//
//@ func diffMap(dst, src) (res, err)
//@   propagates all   [C08]
//@   requires ((_ is VMap) dst) (plainT dst)
//@   ensures (not (isErr err))
//@   ensures (=> (not (kindBad dst src)) (=> (= res VNil) (= dst src)))                                       [C15]
//@   ensures (=> (not (kindBad dst src)) (=> (not (= res VNil)) (and (not (mergeErr src res)) (= (mergeF src res) dst))))   [C15]
//@   ensures (not (= res (VStr "$delete")))
//@   ensures (=> (= dst src) (= res VNil))                                                                    [C15]
//@   decreases (rank dst) 1
//
//@ func diffMapMap(dst, src) (res, err)
//@   propagates all   [C08]
//@   requires ((_ is VMap) dst) ((_ is VMap) src) (plainT dst)
//@   ensures (not (isErr err))
//@   ensures (=> (not (kindBad dst src)) (=> (= res VNil) (= dst src)))                                       [C15]
//@   ensures (=> (not (kindBad dst src)) (=> (not (= res VNil)) (and (not (mergeErr src res)) (= (mergeF src res) dst))))   [C15]
//@   ensures (not (= res (VStr "$delete")))
//@   ensures (=> (= dst src) (= res VNil))                                                                    [C15]
//@   decreases (rank dst) 0
//@   loop 1
//@     invariant ((_ is VMap) ret)
//@     invariant (forall ((j String)) (=> (select visited j)
//@                  (ite (= (select (mc src) j) VAbsent) (= (select (mc ret) j) (select (mc dst) j))
//@                  (=> (not (kindBad (select (mc dst) j) (select (mc src) j)))
//@                      (ite (= (select (mc ret) j) VAbsent) (= (select (mc dst) j) (select (mc src) j))
//@                           (and (not (= (select (mc ret) j) (VStr "$delete")))
//@                                (not (mergeErr (select (mc src) j) (select (mc ret) j)))
//@                                (= (mergeF (select (mc src) j) (select (mc ret) j)) (select (mc dst) j))))))))
//@     invariant (forall ((j String)) (=> (not (select visited j)) (= (select (mc ret) j) VAbsent)))
//@     invariant (=> (= dst src) (forall ((j String)) (= (select (mc ret) j) VAbsent)))
//@   loop 2
//@     invariant ((_ is VMap) ret)
//@     invariant (forall ((j String)) (= (select (mc ret) j)
//@                  (ite (and (select visited j) (= (select (mc dst) j) VAbsent)) (VStr "$delete") (select (mc ret@loop) j))))
//
//@ func diffList(dst, src) (res, err)
//@   propagates all   [C08]
//@   requires ((_ is VList) dst) (plainT dst)
//@   ensures (not (isErr err))
//@   ensures (=> (not (kindBad dst src)) (=> (= res VNil) (= dst src)))                                       [C15]
//@   ensures (=> (not (kindBad dst src)) (=> (not (= res VNil)) (and (not (mergeErr src res)) (= (mergeF src res) dst))))   [C15]
//@   ensures (not (= res (VStr "$delete")))
//@   ensures (=> (= dst src) (= res VNil))                                                                    [C15]
//
//@ func diffListList(dst, src) (res, err)
//@   propagates all   [C08]
//@   uses appNil, snocApp, keepNotInAll, allInRefl, replaceFallback
//@   requires (plainT dst)
//@   ensures (not (isErr err))
//@   ensures (=> (= dst src) (= res VNil))                                                                    [C15]
//@   ensures (=> (listClean (ls dst) (ls src)) (=> (= res VNil) (= dst src)))                                 [C15]
//@   ensures (=> (listClean (ls dst) (ls src)) (=> (not (= res VNil))                                         [C15]
//@              (and (not (llErr (ls src) (ls res))) ((_ is VList) res) (= (llF (ls src) (ls res)) (ls dst)))))
//@   ensures (not (= res (VStr "$delete")))
//@   loop 1
//@     invariant ((_ is VList) ret)
//@     invariant (= (app (ls ret) (keepNotIn rest (ls src))) (keepNotIn (ls dst) (ls src)))
//@   loop 2
//@     invariant (= (lmem v1 rest) (lmem v1 (ls src)))
//@   loop 3
//@     invariant ((_ is VList) ret)
//@     invariant (= dst dst@pre)
//@     invariant (=> (= dst@pre src) (and (= ret (VList LNil)) (allIn rest (ls dst))))
//@     invariant (= (hasNonMapRemoved rest (ls dst)) (hasNonMapRemoved (ls src) (ls dst)))
//@   loop 4
//@     invariant (= (lmem v1 rest) (lmem v1 (ls dst)))
