//go:build verif

// Contracts for cmd/bkld (comment-only; read by /verif/bin/bklverif).
package main

//@ func diff(dst, src) (res, err)
//@   decreases (rank dst) 2
//@ func diffMap(dst, src) (res, err)
//@   decreases (rank dst) 1
//@ func diffMapMap(dst, src) (res, err)
//@   decreases (rank dst) 0
