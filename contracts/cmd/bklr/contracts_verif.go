//go:build verif

// Contracts for cmd/bklr (comment-only; read by /verif/bin/bklverif, invisible to the compiler without -tags verif).
package main

// main: every failing step (FileMatch, New, MergeFileLayers, required, GetFormat, MarshalStream, the write) ends the run.
//@ func main() ()
//@   property C17
//@   propagates all   [C08] [C17]
//@   at call required#1
//@     assert (and (= (rllen docs) 1) (= obj@arg (Document.Data (rlnth docs 0))))                           [C17]
//@   at call Parser.MergeFileLayers#1
//@     assert (= path@arg realPath)                                                                         [C17]
//
//@ func required(obj) (res, err)
//@   propagates all   [C08]
//@   ensures (not (isErr err))
//@   ensures (= res (reqF obj))                                 [C17]
//@   decreases (rank obj) 1
//
//@ func requiredMap(obj) (res, err)
//@   propagates all   [C08]
//@   requires ((_ is VMap) obj)
//@   ensures (not (isErr err))
//@   ensures (= res (reqF obj))                                 [C17]
//@   decreases (rank obj) 0
//@   loop 1
//@     invariant ((_ is VMap) ret)
//@     invariant (forall ((j String)) (=> (select visited j) (reqEnt (select (mc obj) j) (select (mc ret) j))))
//@     invariant (forall ((j String)) (=> (not (select visited j)) (= (select (mc ret) j) VAbsent)))
//
//@ func requiredList(obj) (res, err)
//@   propagates all   [C08]
//@   uses appNil, snocApp
//@   ensures (not (isErr err))
//@   ensures (= res (reqF obj))                                 [C17]
//@   decreases (rank obj) 0
//@   loop 1
//@     invariant ((_ is VList) ret)
//@     invariant (= (app (ls ret) (reqLstF rest)) (reqLstF (ls obj)))
//@     invariant (= (hasReqL (ls obj)) (or (not (= (ls ret) LNil)) (hasReqL rest)))
