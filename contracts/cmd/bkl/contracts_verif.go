//go:build verif

// Contracts for cmd/bkl (comment-only; read by /verif/bin/bklverif).
package main

// Output format selection (C05): -f if given; otherwise, without -o, the (possibly virtual) extension of the FIRST
// input: once a format is chosen no later input changes it.
// Inputs (C03): every command-line input is resolved with FileMatch and merged, in command-line order, with its
// inherited layers (MergeFileLayers) unless -P is given, in which case the file alone is merged (MergeFile).
//@ func main() ()
//@   propagates all   [C08] [C03] [C05] [C07] [C20]
//@   property C05, C03, C18
//@   property C01, C02, C04, C07, C10, C12, C13, C14, C17 shallow   -- every property that says "... is an error" is observed through this program: a failure of loading, layering or output must end the run with a failure status (propagates)
//@   loop 1
//@     transition (=> (not (= format@iter "")) (= format format@iter))                                      [C05]
//@     invariant (wfDocs (Parser.docs p) allocTop)
//@     invariant (=> (and (not (= (options.OutputFormat opts) 0)) (not (= (deref_String (options.OutputFormat opts)) ""))) (= format (deref_String (options.OutputFormat opts))))   [C05]
//@     invariant (=> (and (= (options.OutputFormat opts) 0) (not (= (options.OutputPath opts) 0))) (= format ""))      [C05]
//@   at call FileMatch#1
//@     assert (= path@arg elem)                                                                             [C03]
//@   at call Parser.OutputToWriter#1
//@     assert (and (= (options.OutputPath opts) 0) (= format@arg format))                                   [C05]
//@     assert (=> (and (not (= (options.OutputFormat opts) 0)) (not (= (deref_String (options.OutputFormat opts)) ""))) (= format@arg (deref_String (options.OutputFormat opts))))   [C05]   -- -f wins
//@   at call Parser.OutputToFile#1
//@     assert (and (not (= (options.OutputPath opts) 0)) (= format@arg format))                             [C05]
//@     assert (=> (and (not (= (options.OutputFormat opts) 0)) (not (= (deref_String (options.OutputFormat opts)) ""))) (= format@arg (deref_String (options.OutputFormat opts))))   [C05]   -- -f wins over the -o extension
//@     assert (=> (= (options.OutputFormat opts) 0) (= format@arg ""))                                         [C05]   -- without -f the -o extension decides (OutputToFile)
//@   at call Parser.MergeFile#1
//@     assert (= path@arg realPath)                                                                         [C03]
//@     assert (options.SkipParent opts)                                                                     [C03]
//@     assert (=> (not (= (options.RootPath opts) 0)) (called Parser.SetRoot#1))                            [C18]
//@   at call Parser.MergeFileLayers#1
//@     assert (= path@arg realPath)                                                                         [C03]
//@     assert (not (options.SkipParent opts))                                                               [C03]
//@     assert (=> (not (= (options.RootPath opts) 0)) (called Parser.SetRoot#1))                            [C18]
