//go:build verif

// Contracts for cmd/bkl (comment-only; read by /verif/bin/bklverif).
package main

// Output format selection (C05): -f if given; otherwise, without -o, the (possibly virtual) extension of the FIRST
// input: once a format is chosen no later input changes it.
//@ func main() ()
//@   property C05
//@   loop 1
//@     transition (=> (not (= format@iter "")) (= format format@iter))                                      [C05]
