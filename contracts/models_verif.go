//go:build verif

package bkl

// Models used by the contract checker in place of library calls whose effect on
// the caller depends on a callback. Built only with -tags verif; never part of bkl.

// verifReplaceAllStringFunc stands for (*regexp.Regexp).ReplaceAllStringFunc(src, repl):
// repl is called once for every match of the expression in src, leftmost first,
// and its results replace the matches. Given the matches, it returns the
// replacements in order.
func verifReplaceAllStringFunc(matches []string, repl func(string) string) []string {
	reps := []string{}

	for _, m := range matches {
		r := repl(m)
		reps = append(reps, r)
	}

	return reps
}
