#!/usr/bin/env python3
"""Prints the markdown table of DESIGN.md §10.6 from seeded/*/meta.json (summary, first-run outcome, obligations that
catch the change now)."""
import json, glob, os, re
here = os.path.dirname(os.path.dirname(os.path.abspath(__file__)))
rows = []
for f in sorted(glob.glob(os.path.join(here, 'seeded', '*', 'meta.json'))):
    m = json.load(open(f))
    name = os.path.basename(os.path.dirname(f))
    s = re.sub(r'\s+', ' ', m.get('summary', '')).strip()
    s = s.replace('|', '/')
    if len(s) > 230:
        s = s[:227].rsplit(' ', 1)[0] + ' …'
    first = 'caught' if not m.get('history') else 'missed → check strengthened'
    if m.get('open'):
        first = 'missed — OPEN (not answered before the end of the session)'
    elif m.get('detected_by_other'):
        first = 'not reported by this check (outside the property\'s quantifier); reported by ' + ', '.join(m['detected_by_other'])
    elif m.get('history') and isinstance(m['history'], list) and isinstance(m['history'][0], dict) and str(m['history'][0].get('first_run','')).startswith('caught'):
        first = 'caught (by a replayed witness only) → check strengthened'
    by = m.get('caught_by') or []
    by = ', '.join('`%s`' % b.replace('|', '/') for b in by[:2]) + (' (+%d)' % (m.get('caught_count', len(by)) - 2) if m.get('caught_count', len(by)) > 2 else '')
    rows.append('| %s | %s | %s | %s |' % (name, s, first, by))
print('| seeded change | what it does | first run of the check | obligations that fail now |')
print('|---|---|---|---|')
print('\n'.join(rows))
