#!/usr/bin/env python3
"""Regenerates /verif/MANIFEST.json from the table below (one entry per claimed property; everything else is listed
under not_applicable with its reason)."""
import json, os, subprocess
here = os.path.dirname(os.path.dirname(os.path.abspath(__file__)))
props = [json.loads(l) for l in open(os.path.join(here, 'properties.jsonl'))]

TECH = 'contract-based deductive verification: VCs generated from the Go AST (go/ast+go/types), discharged by z3/cvc5; ownership/frame obligations by the tool'
CLAIMED = {
 'C01': dict(cat='proof', ref='DESIGN.md §4 C01',
   text='Every function of the merge layer (merge, mergeMap, mergeMapMap, mergeList, mergeListList, mergeListDelete, mergeListMatch, match*, and the pop*/has* helpers, with filterList inlined from its real body) is proved, for all trees and all map iteration orders, to return exactly mergeF/mergeErr/matchS of the spec library, which is written from the documented merge rules; the recursive call is used through its contract, so layer chains of any length follow by composition. Ownership obligations prove that no value is merged into two places (list $match fan-out).',
   note='Assumed: deepClone returns an equal tree (trusted contract); mergeF is characterised by one spec axiom (it satisfies its defining equations); finite-map cardinality and rank axioms; partial correctness (termination is C08); value semantics of trees backed by the ownership obligations.'),
 'C02': dict(cat='proof', ref='DESIGN.md §4 C02, §10',
   text='Functional contracts on the real functions, proved for all heaps: mergeDocs gives the target mergeF(old data, layer body) and appends it to the parents of the layer document; PopMapValue; parents/AllParents/allParents compute exactly the stored documents (in stream order) whose ID is in the transitive-parent ID set ancIDs; findMatches prefers matching parents over matching documents anywhere; mergePatchMatch ($match absent / null: append a new document / pattern: every match merged, none: ErrNoMatchFound) and MergeDocument are proved to merge exactly the selected documents, each with the layer body as it was on entry, to leave every other document and the document order untouched, and to fail only if a target rejects the merge. The representation invariant wfDocs (stored documents distinct, non-nil, allocated) is an inductive invariant of MergeDocument, mergeFile, MergeFile and loadFile, which covers arbitrary histories of calls. Ownership obligations prove that the layer data is never shared between targets.',
   note='ancIDs is characterised by one spec axiom (least set closed under "parent ID or ancestor of a parent"); termination of AllParents (acyclic parent graph) and the preconditions of MergeFileLayers (freshness of the documents of a whole file chain) are not proved (unclaimed); deepClone is an assumed contract; the ownership analysis is trusted tool code.'),
 'C03': dict(cat='other', ref='DESIGN.md §4 C03',
   text='Proved on the real functions: parentsFromFilename implements the filename rule exactly (fewer than two dot-separated parts: ErrInvalidFilename; two: no parent; more: the single parent is the existing file of the layer formed by all but the last two parts, and a missing layer is ErrMissingFile, never silently skipped); globFiles only returns matches with the pattern dot count (the wildcard does not cross dots); loadFileAndParents returns the requested file last, after everything its parents contributed, and its recursion is bounded (file-chain depth, C08); MergeFile (bkl -P) leaves no $parent directive in the documents it merges.',
   note='NOT covered: the priority directive > symlink > filename in file.parents and the $parent value forms in parentsFromDirective (they depend on nil-versus-empty slices, which the model does not distinguish; such comparisons are unknown booleans, so nothing is claimed about them); the order of several parents and of several CLI inputs; renaming invariance. ASSUMED: findFile, isStdin, ext and path/filepath are uninterpreted (the file system is outside the contracts).'),
 'C04': dict(cat='other', ref='DESIGN.md §4 C04',
   text='What bkl owns of format independence is the canonical representation the decoders are mapped to: normalize/normalizeMap/normalizeList are proved to return a tree in which every number is a Go int or float64 (no int64, no json.Number) for every tree of decoder-producible shape, to be the identity on canonical trees, to turn json.Number into int/float64 and int64 into the int of the same value; yamlTranslateNode and yamlMerge are proved to produce canonical trees; $decode normalizes the decoded document before it re-enters the tree (site assertion). Under that invariant the type-sensitive == of match/merge/$repeat is logical equality whatever format each side came from.',
   note='ASSUMED, not proved: that the three third-party decoders are faithful to their formats (same logical tree from the same data; anchors, dotted keys); strconv parsing; TOML arrays of tables ([]map[string]any) and TOML dates are outside the clause (opaque element types in the model); loadFile applying normalize to every document is not under a functional contract; integers are mathematical (int64 that does not fit int cannot be represented).'),
 'C05': dict(cat='other', ref='DESIGN.md §4 C05',
   text='The part of the round trip that bkl owns and a contract can reach: (1) format selection - in cmd/bkl the format is -f if given, else without -o the (virtual) extension of the FIRST input (transition clause: once chosen no later input changes it); OutputToFile uses the extension of the output path only when no format is given; OutputToWriter defaults to json-pretty; an unknown format is an error; (2) the format table registers exactly json, jsonl, json-pretty, yaml, yml, toml, the aliases share the codec of the name they alias, json-pretty decodes as json, every format has both directions and the codec functions of its own name; (3) stream framing on the encoding side: tomlMarshalStream, yamlMarshalStream, jsonMarshalStream and jsonMarshalStreamPretty are proved to produce exactly the framing of spec/framing.smt2 (TOML documents separated by a --- line with none before the first; YAML null documents as a bare --- line, nothing if first; JSON concatenation) over the per-document encodings, and to fail exactly when one per-document encoding fails.',
   note='NOT decided by this family: that encoding then decoding yields the same documents is a property of yaml.v3, go-toml and encoding/json, which are not under contract (assumed deterministic, uninterpreted marshalS/unmarshalV); bytes.Buffer and the encoders are modelled as ghost strings (encS/encE uninterpreted per configuration and call number); the decoding side splits with regexp (external) and is not under contract; agreement with independent parsers is a differential test, outside contract-based verification.'),
 'C06': dict(cat='proof', ref='DESIGN.md §4 C06',
   text='One pass-through clause per evaluation stage, proved for all trees whose keys and strings do not start with a single $ (plain data and data with doubled dollars both qualify) and that are nested less deep than the recursion guard: process1* and process2* return dropF(obj) (only nulls dropped) without error, findOutputs selects nothing and returns the tree, filterOutput returns dropF(obj), validate accepts, finalizeString is exactly ReplaceAll("$$","$") and finalizeOutput applies it to every key and string value (finF).',
   note='Not proved: the composition into one end-to-end statement (unesc(dbl s) = s is a string induction the solvers do not do; it is stated in DESIGN.md as a bounded lemma and not claimed here); repeatDoc and Document.Process are not under a functional contract; height/rank are uninterpreted measures with child-smaller-than-parent axioms.'),
 'C12': dict(cat='other', ref='DESIGN.md §4 C12',
   text='Document-level $repeat with a plain count is proved completely: repeatDocGenFromInt returns exactly max(n,0) documents, the j-th a fresh copy of the document data evaluated in a fresh context that binds the name to j and otherwise equals the original context, with no existing object changed (allocation frame); repeatDocGen dispatches int/map/other (other: ErrInvalidRepeat); repeatDocMap pops $repeat and leaves documents without it untouched. Nested $repeat: a non-integer count is an error, and every copy is evaluated in a clone of the context with $repeat bound to its index (site assertions at the process2 calls).',
   note='Not proved: the cartesian product order of named counts (repeatDocGenFromMap: needs non-linear arithmetic; only the equal length of documents and contexts is proved), the order/concatenation of nested copies (needs a name for each process2 result), and that a copy equals the hand-written document (that is the definition of process2 under the bound context).'),
 'C13': dict(cat='other', ref='DESIGN.md §4 C13',
   text='envVars is proved to build exactly the map "$env:"+K -> string V from the environment entries, split at the first "=" (entries without "=" skipped); GetVar returns the bound value or ErrVariableNotFound, never an empty substitution; process2String dispatches $env:NAME and $repeat to GetVar and leaves every other non-template string unchanged; getWithVar prefers the document path and only then the variable; the per-placeholder closure of process2StringInterp is proved to latch the first error (closure guarantees checked on the real literal).',
   note='ASSUMED: regexp.ReplaceAllStringFunc calls the literal on exactly the {..} matches left to right and copies the rest (the literal is executed from an arbitrary state instead); fmt %v; os.Environ constant during an evaluation. Recorded finding K2 (replayed on the real CLI on every run): a substituted value is later treated as source text ($$ unescaped, directive-shaped values rejected). The whole-template clause "other text unchanged" is not proved.'),
 'C14': dict(cat='proof', ref='DESIGN.md §4 C14',
   text='process2EncodeString is proved, for all values and all transform strings, to return encStrF(obj, v) and to fail exactly on encStrE(obj, v), where the spec spells out every transform from the documentation: base64/sha256 of fmt(%v) of the denoted value, flatten one level, join with optional delimiter, prefix, tolist (maps by ascending key, list values fanned out, empty string value gives the bare key; lists of maps concatenated), values by ascending key, flags = tolist:= then prefix:--, <format> = that codec, and all arity/kind errors; process2EncodeAny is proved to be the left fold over a transform list; the helpers (toStringListPermissive, process2ToList*, process2ValuesMap) are proved against list specs; $decode requires exactly {$value: string}, a known format and exactly one decoded document, and normalizes it.',
   note='ASSUMED: base64, sha256, hex and the three codecs are their standard functions (uninterpreted b64, sha256raw, hexenc, marshalS); GetFormat is under an assumed contract (table lookup); fmt %v is uninterpreted; that $decode inverts $encode is the codec round trip of third-party libraries (not under contract).'),
 'C15': dict(cat='other', ref='DESIGN.md §4 C15',
   text='The round trip is the postcondition itself: for every "$"-free, null-free target and any base, diff/diffMap/diffMapMap/diffList are proved to return nil exactly when target = base, and otherwise a layer L with not mergeErr(base, L) and mergeF(base, L) = target - the same mergeF/mergeErr that merge is proved against in C01 - outside the classes of finding F13 (kindBad: a container changing kind where the merge rules reject the override).',
   note='For lists the clause is proved for pairs that are equal or that take the whole-list $replace fallback (a removed entry that is not a map): diffListList is verified for exactly those (four loop invariants, staged lemmas about the appended {$replace: true} marker); entry-level list patches (added/deleted map entries, reordering, duplicates, partial-match deletes) are not claimed - findings F13a/F13b are replayed on the real bkld+bkl on every run; reflect.DeepEqual is modelled as structural equality; main/diffDoc ($match: {}) are not under contract.'),
 'C16': dict(cat='proof', ref='DESIGN.md §4 C16',
   text='intersect/intersectMap/intersectMapMap/intersectList/intersectListList are proved to return interF(a,b) (a map keeps exactly the keys present in both, equal scalars are kept, present-in-both-but-different becomes "$required", lists keep the entries of the first that occur in the second, each once) and, as a separate clause proved through the recursion of the code itself, intersect(a,a) = a.',
   note='The left fold over the input files in main and the lossless-migrate composition with bkld (C15, whose list case is assumed) are not proved; reflect.DeepEqual is modelled as structural equality.'),
 'C20': dict(cat='other', ref='DESIGN.md §4 C20',
   text='Effects obligations on WrapOrDie: syscall.Exec is called exactly once, after the loop over the arguments has finished; inside the loop every failing step (New, MergeFileLayers, CreateTemp, OutputToFile) ends in fatal, a failing FileMatch skips the argument untouched, and the only write to the argument vector is args[i] = tmp.Name(); plus the no-panic sweep obligation that the index stays inside the cloned argument slice.',
   note='Syntactic obligations only: that the temp file holds the evaluated layers in the format of the named extension relies on the contracts of MergeFileLayers/OutputToFile (not under functional contract); os/exec, syscall.Exec, os.CreateTemp are external.'),
 'C17': dict(cat='proof', ref='DESIGN.md §4 C17',
   text='required/requiredMap/requiredList are proved to return exactly reqF(obj), the spec of the $required skeleton written from the property statement, for all trees and all map iteration orders.',
   note='Assumed: reqF is characterised by one spec axiom; list lemmas appNil/snocApp are proved by their own induction obligations in the same run; main() of bklr and the codecs are not under contract.'),
 'C18': dict(cat='other', ref='DESIGN.md §4 C18',
   text='Effects obligations over the whole library: the only calls that read file content or open a root handle are p.root.Open(relPath)+io.ReadAll(fh) in loadFile, os.OpenRoot("/") in New and p.root.OpenRoot(rel) in SetRoot (any other os.Open/ReadFile/OpenRoot in any library function fails an obligation); data-flow obligations: the handle read is os.Stdin or p.root.Open(relPath), relPath = Rel(p.rootPath, Abs(path)), SetRoot opens the new root through the current one relative to the current root path and assigns root and rootPath together; cmd/bkl applies -r before the first input.',
   note='Assumed: os.Root refuses .., absolute paths and symlinks that leave the root (external, not under contract); existence probes (os.Stat, filepath.Glob, EvalSymlinks) bypass the root by design, so independence of the *existence* of outside files is not decided by these obligations; the data-flow checks are syntactic (single-assignment patterns).'),
 'C19': dict(cat='proof', ref='DESIGN.md §4 C19',
   text='Frame obligations: Output, OutputDocuments, OutputToWriter, OutputToFile, outputDocument and Documents are declared `modifies nothing`, and the tool proves that neither they nor anything they call writes a struct field of an object that was not allocated during the call (Document.Process works on a Clone), nor mutates a tree reachable from a stored document (ownership obligations over process1*, merge*).',
   note='"Same bytes each time" then follows from determinism of evaluation (C09) - not separately proved; Assumed: Document.Clone/deepClone return unshared copies; the ownership/frame analysis is a flow-sensitive abstract interpretation written for this task (trusted).'),
}
for c in CLAIMED.values(): c['tech'] = TECH
NA_REASON = 'machinery for this property is not built yet (build phase in progress); plan in DESIGN.md §4'

checks = []
for p in props:
    i = p['id']
    if i not in CLAIMED: continue
    c = CLAIMED[i]
    checks.append({
      'property_id': i,
      'quick_cmd': f'bin/check {i} quick',
      'thorough_cmd': f'bin/check {i} thorough',
      'evidence_file': f'/verif/evidence/{i}.json',
      'replay_cmd_template': 'cat {path}',
      'engine': 'bklverif',
      'level_claimed': {'category': c['cat'], 'text': c['text'], 'design_ref': c['ref']},
      'level_note': c['note'],
      'technique': c['tech'],
    })
hooks_commits = []
try:
    out = subprocess.run(['git', '-C', '/repo', 'log', '--format=%H %s'], capture_output=True, text=True).stdout
    for l in out.splitlines():
        h, s = l.split(' ', 1)
        if s.startswith('verif:'): hooks_commits.append(h)
except Exception: pass
m = {
 'version': 1,
 'setup_cmd': 'bin/build',
 'hooks': {'guard': 'verif', 'enable': '-tags verif (comment-only contracts_verif.go files; the tool loads /repo with this tag)',
           'baseline_off_cmd': 'cd /repo && GOFLAGS=-mod=mod go test -vet=off -count=1 -timeout 25m ./...',
           'source_commits': hooks_commits, 'add_only': True},
 'engines': [{'name': 'bklverif', 'path': '/verif/tool', 'serves_properties': sorted(CLAIMED),
              'kind_free_text': 'verification-condition generator over go/ast+go/types for contracts kept as //@ comments; obligations discharged by z3-new/cvc5/z3; ownership/frame/effects pass'}],
 'checks': checks,
 'not_applicable': [{'property_id': p['id'], 'reason': NA_REASON} for p in props if p['id'] not in CLAIMED],
 'notes': 'contracts: /repo/**/contracts_verif.go (build tag verif), mirrored under /verif/contracts; spec library: /verif/spec; ledger of claimed obligations: /verif/ledger',
}
json.dump(m, open(os.path.join(here, 'MANIFEST.json'), 'w'), indent=1)
print('MANIFEST.json:', len(checks), 'checks,', len(m['not_applicable']), 'not applicable')
