#!/usr/bin/env python3
"""Regenerates /verif/MANIFEST.json from the table below (one entry per claimed property; everything else is listed
under not_applicable with its reason)."""
import json, os, subprocess
here = os.path.dirname(os.path.dirname(os.path.abspath(__file__)))
props = [json.loads(l) for l in open(os.path.join(here, 'properties.jsonl'))]

CLAIMED = {
 'C01': dict(cat='proof', ref='DESIGN.md §4 C01',
   text='Every function of the merge layer (merge, mergeMap, mergeMapMap, mergeList, mergeListList, mergeListDelete, mergeListMatch, match*, and the pop*/has* helpers, with filterList inlined from its real body) is proved, for all trees and all map iteration orders, to return exactly mergeF/mergeErr/matchS of the spec library, which is written from the documented merge rules; the recursive call is used through its contract, so layer chains of any length follow by composition.',
   note='Assumed: deepClone returns an equal tree (trusted contract); mergeF is characterised by one spec axiom (it satisfies its defining equations); finite-map cardinality and rank axioms; partial correctness (termination is C08); value semantics of trees (sharing is C02).',
   tech='contract-based deductive verification: VCs generated from the Go AST, discharged by z3/cvc5'),
 'C17': dict(cat='proof', ref='DESIGN.md §4 C17',
   text='required/requiredMap/requiredList are proved to return exactly reqF(obj), the spec of the $required skeleton written from the property statement, for all trees and all map iteration orders.',
   note='Assumed: reqF is characterised by one spec axiom; list lemmas appNil/snocApp are proved by their own induction obligations in the same run; main() of bklr and the codecs are not under contract.',
   tech='contract-based deductive verification: VCs generated from the Go AST, discharged by z3/cvc5'),
}
NA_REASON = 'machinery for this property is not built yet (build phase in progress); plan in DESIGN.md §4'

checks = []
for p in props:
    i = p['id']
    if i not in CLAIMED: continue
    c = CLAIMED[i]
    checks.append({
      'property_id': i,
      'quick_cmd': f'bin/check {i} quick',
      'thorough_cmd': f'bin/check {i} thorough',
      'evidence_file': f'/verif/evidence/{i}.json',
      'replay_cmd_template': 'cat {path}',
      'engine': 'bklverif',
      'level_claimed': {'category': c['cat'], 'text': c['text'], 'design_ref': c['ref']},
      'level_note': c['note'],
      'technique': c['tech'],
    })
hooks_commits = []
try:
    out = subprocess.run(['git', '-C', '/repo', 'log', '--format=%H %s'], capture_output=True, text=True).stdout
    for l in out.splitlines():
        h, s = l.split(' ', 1)
        if s.startswith('verif:'): hooks_commits.append(h)
except Exception: pass
m = {
 'version': 1,
 'setup_cmd': 'bin/build',
 'hooks': {'guard': 'verif', 'enable': '-tags verif (comment-only contracts_verif.go files; the tool loads /repo with this tag)',
           'baseline_off_cmd': 'cd /repo && GOFLAGS=-mod=mod go test -vet=off -count=1 -timeout 25m ./...',
           'source_commits': hooks_commits, 'add_only': True},
 'engines': [{'name': 'bklverif', 'path': '/verif/tool', 'serves_properties': sorted(CLAIMED),
              'kind_free_text': 'verification-condition generator over go/ast+go/types for contracts kept as //@ comments; obligations discharged by z3-new/cvc5/z3; ownership/frame/effects pass'}],
 'checks': checks,
 'not_applicable': [{'property_id': p['id'], 'reason': NA_REASON} for p in props if p['id'] not in CLAIMED],
 'notes': 'contracts: /repo/**/contracts_verif.go (build tag verif), mirrored under /verif/contracts; spec library: /verif/spec; ledger of claimed obligations: /verif/ledger',
}
json.dump(m, open(os.path.join(here, 'MANIFEST.json'), 'w'), indent=1)
print('MANIFEST.json:', len(checks), 'checks,', len(m['not_applicable']), 'not applicable')
