; ---------------------------------------------------------------------------------------------
; lemmas about the spec library: each is proved by its own base/step obligations (structural induction on the named
; list variable) before it may be used; contracts opt in with `uses NAME`.
; ---------------------------------------------------------------------------------------------
(lemma appNil ((r Lst)) (= (app r LNil) r) :induct r)
(lemma snocApp ((r Lst) (x Val) (t Lst)) (= (app (app r (LCons x LNil)) t) (app r (LCons x t))) :induct r)
(lemma appAssoc ((a Lst) (b Lst) (c Lst)) (= (app (app a b) c) (app a (app b c))) :induct a)
