; ---------------------------------------------------------------------------------------------
; lemmas about the spec library: each is proved by its own base/step obligations (structural induction on the named
; list variable) before it may be used; contracts opt in with `uses NAME`.
; ---------------------------------------------------------------------------------------------
(lemma appNil ((r Lst)) (= (app r LNil) r) :induct r)
(lemma snocApp ((r Lst) (x Val) (t Lst)) (= (app (app r (LCons x LNil)) t) (app r (LCons x t))) :induct r)
(lemma appAssoc ((a Lst) (b Lst) (c Lst)) (= (app (app a b) c) (app a (app b c))) :induct a)
(lemma noMarkerNoExtra ((l Lst) (k String) (b Bool))
  (=> (not (anyBoolKey l k b)) (and (not (markerExtra l k b)) (= (dropMarkers l k b) l))) :induct l)
(lemma noStrNoRemove ((l Lst) (s String)) (=> (not (memStr l s)) (= (removeStr l s) l)) :induct l)
(lemma lsetLen ((a Lst) (i Int) (x Val)) (= (llen (lset a i x)) (llen a)) :induct a)
(lemma lrepeatLen ((x Val) (n Int)) (= (llen (lrepeat x n)) (ite (<= n 0) 0 n)) :induct n)
(lemma ltakeSet ((a Lst) (i Int) (x Val)) (=> (and (<= 0 i) (< i (llen a))) (= (ltake (lset a i x) (+ i 1)) (app (ltake a i) (LCons x LNil)))) :induct a)
(lemma ltakeAll ((a Lst) (n Int)) (=> (>= n (llen a)) (= (ltake a n) a)) :induct a)
(lemma finLsnoc ((a Lst) (x Val)) (= (finL (app a (LCons x LNil))) (app (finL a) (LCons (finF x) LNil))) :induct a)
(lemma appLen ((a Lst) (b Lst)) (= (llen (app a b)) (+ (llen a) (llen b))) :induct a)
(lemma sappLen ((a SLst) (b SLst)) (= (sllen (sapp a b)) (+ (sllen a) (sllen b))) :induct a)
(lemma rappLen ((a RLst) (b RLst)) (= (rllen (rapp a b)) (+ (rllen a) (rllen b))) :induct a)
(lemma dropMarkersRank ((l Lst) (k String) (b Bool)) (<= (rankL (dropMarkers l k b)) (rankL l)) :induct l)
(lemma flagsApp ((a Lst) (b Lst)) (>= (flagsInL (app a b)) (flagsInL b)) :induct a)
(lemma slsetLen ((a SLst) (i Int) (x String)) (= (sllen (slset a i x)) (sllen a)) :induct a)
(lemma keepAll ((a Lst) (b Lst)) (=> (allIn a b) (= (keepCommon a b) a)) :induct a)
(lemma allInCons ((a Lst) (b Lst) (x Val)) (=> (allIn a b) (allIn a (LCons x b))) :induct a)
(lemma allInRefl ((a Lst)) (allIn a a) :induct a :uses (allInCons))
