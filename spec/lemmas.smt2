; ---------------------------------------------------------------------------------------------
; lemmas about the spec library: each is proved by its own base/step obligations (structural induction on the named
; list variable) before it may be used; contracts opt in with `uses NAME`.
; ---------------------------------------------------------------------------------------------
(lemma appNil ((r Lst)) (= (app r LNil) r) :induct r)
(lemma snocApp ((r Lst) (x Val) (t Lst)) (= (app (app r (LCons x LNil)) t) (app r (LCons x t))) :induct r)
(lemma appAssoc ((a Lst) (b Lst) (c Lst)) (= (app (app a b) c) (app a (app b c))) :induct a)
(lemma noMarkerNoExtra ((l Lst) (k String) (b Bool))
  (=> (not (anyBoolKey l k b)) (and (not (markerExtra l k b)) (= (dropMarkers l k b) l))) :induct l)
(lemma noStrNoRemove ((l Lst) (s String)) (=> (not (memStr l s)) (= (removeStr l s) l)) :induct l)
