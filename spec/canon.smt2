; ---------------------------------------------------------------------------------------------
; canon.smt2 — canonical representation of decoded trees (C04), from the property statement.
;   canon v : every number in v is a Go int or a float64 (no int64, no json.Number, no other dynamic type) and
;             containers are map[string]any / []any. Under canon, Go's type-sensitive == used by $match, $delete,
;             useless-override detection and $repeat is logical equality, whatever format the two sides came from.
; (int64 values that do not fit in int cannot occur on the 64-bit platforms bkl targets: integers are mathematical here.)
; ---------------------------------------------------------------------------------------------
(define-funs-rec (
  (canon ((v Val)) Bool)
  (canonL ((l Lst)) Bool))
 ((ite ((_ is VI64) v) false
  (ite ((_ is VNum) v) false
  (ite ((_ is VOth) v) false
  (ite ((_ is VList) v) (canonL (ls v))
  (ite ((_ is VMap) v) (forall ((k String)) (=> (not (= (select (mc v) k) VAbsent)) (canon (select (mc v) k))))
  true)))))
  (ite ((_ is LNil) l) true (and (canon (hd l)) (canonL (tl l))))))
; decShape v : what the three decoders can produce for the data of the property's quantifier: no dynamic type other
; than nil, bool, int, int64, float64, string, json.Number, map[string]any and []any (TOML arrays of tables, decoded as
; []map[string]any, are handled by normalizeListMap but are outside this clause: their elements are opaque in the model)
(define-funs-rec (
  (decShape ((v Val)) Bool)
  (decShapeL ((l Lst)) Bool))
 ((ite ((_ is VOth) v) false
  (ite ((_ is VList) v) (decShapeL (ls v))
  (ite ((_ is VMap) v) (forall ((k String)) (=> (not (= (select (mc v) k) VAbsent)) (decShape (select (mc v) k))))
  true)))
  (ite ((_ is LNil) l) true (and (decShape (hd l)) (decShapeL (tl l))))))
