; ---------------------------------------------------------------------------------------------
; axioms: assumed facts (each one is listed in the evidence as part of the trusted base)
; ---------------------------------------------------------------------------------------------
; AX strSplit: strings.Split never returns an empty slice (separator non-empty)
(assert (forall ((s String) (p String)) (! (not (= (strSplit s p) SNil)) :pattern ((strSplit s p)))))
; AX strSplitN: strings.SplitN(s, sep, n) with n > 0 returns between 1 and n parts
(assert (forall ((s String) (p String) (n Int)) (! (=> (> n 0) (and (not (= (strSplitN s p n) SNil)) (<= (sllen (strSplitN s p n)) n))) :pattern ((strSplitN s p n)))))
; AX strCount: non-negative
(assert (forall ((s String) (p String)) (! (>= (strCount s p) 0) :pattern ((strCount s p)))))
; AX mlen: len(m) of a Go map = number of present keys
(assert (forall ((m MapC)) (! (>= (mlen m) 0) :pattern ((mlen m)))))
(assert (forall ((m MapC) (k String)) (! (=> (= (mlen m) 0) (= (select m k) VAbsent)) :pattern ((mlen m) (select m k)))))
(assert (forall ((m MapC)) (! (=> (> (mlen m) 0) (not (= (select m (mwit m)) VAbsent))) :pattern ((mlen m)))))
(assert (forall ((m MapC) (k String)) (! (=> (and (= (mlen m) 1) (not (= (select m k) VAbsent))) (= k (mwit m))) :pattern ((mlen m) (select m k)))))
(assert (forall ((m MapC) (k String) (v Val)) (! (= (mlen (store m k v))
     (+ (mlen m) (ite (= v VAbsent) (ite (= (select m k) VAbsent) 0 (- 1)) (ite (= (select m k) VAbsent) 1 0))))
   :pattern ((mlen (store m k v))))))
(assert (= (mlen emptyM) 0))
; AX isLowerRune: ASCII facts used by validateString
(assert (forall ((c Int)) (! (=> (and (>= c 97) (<= c 122)) (isLowerRune c)) :pattern ((isLowerRune c)))))
(assert (forall ((c Int)) (! (=> (and (>= c 0) (< c 97)) (not (isLowerRune c))) :pattern ((isLowerRune c)))))
; AX llen >= 0
(assert (forall ((a Lst)) (! (>= (llen a) 0) :pattern ((llen a)))))
(assert (forall ((a SLst)) (! (>= (sllen a) 0) :pattern ((sllen a)))))
(assert (forall ((a RLst)) (! (>= (rllen a) 0) :pattern ((rllen a)))))
; AX rank: trees are finite, so every child has a smaller rank than its parent (value semantics: no cyclic trees;
; the creation of cyclic structures in the real heap is what the ownership pass rules out)
(assert (forall ((v Val)) (! (>= (rank v) 0) :pattern ((rank v)))))
(assert (forall ((l Lst)) (! (>= (rankL l) 0) :pattern ((rankL l)))))
(assert (forall ((m MapC) (k String)) (! (=> (not (= (select m k) VAbsent)) (< (rank (select m k)) (rank (VMap m)))) :pattern ((rank (select m k)) (rank (VMap m))))))
(assert (forall ((v Val) (k String)) (! (=> (and ((_ is VMap) v) (not (= (select (mc v) k) VAbsent))) (< (rank (select (mc v) k)) (rank v))) :pattern ((rank (select (mc v) k))))))
(assert (forall ((v Val)) (! (=> ((_ is VList) v) (= (rank v) (+ 1 (rankL (ls v))))) :pattern ((rank v)))))
(assert (= (rankL LNil) 0))
(assert (forall ((h Val) (t Lst)) (! (= (rankL (LCons h t)) (+ 1 (rank h) (rankL t))) :pattern ((LCons h t)))))
(assert (forall ((v Val)) (! (=> (and (not ((_ is VList) v)) (not ((_ is VMap) v))) (= (rank v) 0)) :pattern ((rank v)))))
(assert (forall ((a Lst) (b Lst)) (! (>= (rankL (app a b)) (rankL b)) :pattern ((app a b)))))
(assert (forall ((m MapC) (k String)) (! (<= (rank (VMap (store m k VAbsent))) (rank (VMap m))) :pattern ((rank (VMap (store m k VAbsent)))))))
; AX strSplitHead: the first part of strings.Split(s, sep) is the text before the first separator (sep non-empty)
(assert (forall ((s String) (p String)) (! (=> (> (str.len p) 0)
   (= (shd (strSplit s p)) (ite (str.contains s p) (str.substr s 0 (str.indexof s p 0)) s))) :pattern ((strSplit s p)))))
; AX yamlParseF yields a Go value
(assert (forall ((s String)) (! (not (= (yamlParseF s) VAbsent)) :pattern ((yamlParseF s)))))
; AX strSplitN2: strings.SplitN(s, sep, 2) splits at the first separator: [before, after], or [s] if there is none
(assert (forall ((s String)) (! (ite (str.contains s "=")
     (= (strSplitN s "=" 2) (SCons (str.substr s 0 (str.indexof s "=" 0))
                            (SCons (str.substr s (+ (str.indexof s "=" 0) 1) (- (str.len s) (+ (str.indexof s "=" 0) 1))) SNil)))
     (= (strSplitN s "=" 2) (SCons s SNil))) :pattern ((strSplitN s "=" 2)))))
; AX byteLen: at least one byte per code point, exactly one on ASCII text, zero only for the empty string
(assert (forall ((s String)) (! (and (>= (byteLen s) (str.len s)) (=> (isAscii s) (= (byteLen s) (str.len s))) (= (= (byteLen s) 0) (= s "")))
                              :pattern ((byteLen s)))))
; AX strByte: a byte is 0..255; inside an ASCII prefix the i-th byte is the i-th code point
(assert (forall ((s String) (i Int)) (! (and (<= 0 (strByte s i)) (< (strByte s i) 256)
     (=> (and (<= 0 i) (< i (str.len s)) (isAscii (str.substr s 0 (+ i 1)))) (= (strByte s i) (str.to_code (str.at s i)))))
                              :pattern ((strByte s i)))))
; AX byteSub: cutting inside an ASCII prefix is cutting code points
(assert (forall ((s String) (a Int) (b Int)) (! (=> (and (<= 0 a) (<= a b) (<= b (str.len s)) (isAscii (str.substr s 0 b))) (= (byteSub s a b) (str.substr s a (- b a))))
                              :pattern ((byteSub s a b)))))
; AX decCount: Decode succeeds exactly below decCount and fails at it; io.EOF is an error value
(assert (forall ((c Int) (s String)) (! (and (>= (decCount c s) 0) ((_ is E) (decE c s (decCount c s)))) :pattern ((decCount c s)))))
(assert (forall ((c Int) (s String) (k Int)) (! (=> (and (<= 0 k) (< k (decCount c s))) (= (decE c s k) NoErr)) :pattern ((decE c s k)))))
(assert ((_ is E) ioEOF))
