; ---------------------------------------------------------------------------------------------
; prelude: sorts of the tree model, lists, errors, references, and the assumed facts about them.
; Every (assert ...) in the spec library is an axiom and is counted in the evidence.
; ---------------------------------------------------------------------------------------------
(declare-datatypes ((Val 0) (Lst 0)) (
  ((VAbsent) (VNil) (VBool (bv Bool)) (VInt (iv Int)) (VI64 (lv Int)) (VFlt (fv Int)) (VNum (nv String)) (VStr (sv String))
   (VOth (ot Int) (op Int)) (VList (ls Lst)) (VMap (mc (Array String Val))))
  ((LNil) (LCons (hd Val) (tl Lst)))))
(declare-datatypes ((SLst 0)) (((SNil) (SCons (shd String) (stl SLst)))))
(declare-datatypes ((SSlice 0)) (((SliceNil) (Slice (items SLst)))))   ; a Go []string: nil, or a (possibly empty) sequence
(declare-datatypes ((RLst 0)) (((RNil) (RCons (rhd Int) (rtl RLst)))))
(declare-datatypes ((ErrV 0)) (((NoErr) (E (etag Int)))))
(define-sort MapC () (Array String Val))
(define-fun emptyM () MapC ((as const (Array String Val)) VAbsent))
(define-fun emptySet () (Array String Bool) ((as const (Array String Bool)) false))
(define-fun emptyRM () (Array String Int) ((as const (Array String Int)) 0))
(define-fun mapOf ((v Val)) MapC (ite ((_ is VMap) v) (mc v) emptyM))
(define-fun isErr ((e ErrV)) Bool ((_ is E) e))


; ---- lists of values
(define-fun-rec app ((a Lst) (b Lst)) Lst (ite ((_ is LNil) a) b (LCons (hd a) (app (tl a) b))))
(define-fun snoc ((a Lst) (x Val)) Lst (app a (LCons x LNil)))
(define-fun-rec llen ((a Lst)) Int (ite ((_ is LNil) a) 0 (+ 1 (llen (tl a)))))
(define-fun-rec lnth ((a Lst) (i Int)) Val (ite ((_ is LNil) a) VNil (ite (<= i 0) (hd a) (lnth (tl a) (- i 1)))))
(define-fun-rec ltake ((a Lst) (n Int)) Lst (ite (or ((_ is LNil) a) (<= n 0)) LNil (LCons (hd a) (ltake (tl a) (- n 1)))))
(define-fun-rec ldrop ((a Lst) (n Int)) Lst (ite (or ((_ is LNil) a) (<= n 0)) a (ldrop (tl a) (- n 1))))
(define-fun-rec lset ((a Lst) (i Int) (x Val)) Lst (ite ((_ is LNil) a) LNil (ite (<= i 0) (LCons x (tl a)) (LCons (hd a) (lset (tl a) (- i 1) x)))))
(define-fun-rec lrepeat ((x Val) (n Int)) Lst (ite (<= n 0) LNil (LCons x (lrepeat x (- n 1)))))
; ---- lists of strings
(define-fun-rec sapp ((a SLst) (b SLst)) SLst (ite ((_ is SNil) a) b (SCons (shd a) (sapp (stl a) b))))
(define-fun ssnoc ((a SLst) (x String)) SLst (sapp a (SCons x SNil)))
(define-fun-rec sllen ((a SLst)) Int (ite ((_ is SNil) a) 0 (+ 1 (sllen (stl a)))))
(define-fun-rec slnth ((a SLst) (i Int)) String (ite ((_ is SNil) a) "" (ite (<= i 0) (shd a) (slnth (stl a) (- i 1)))))
(define-fun-rec sltake ((a SLst) (n Int)) SLst (ite (or ((_ is SNil) a) (<= n 0)) SNil (SCons (shd a) (sltake (stl a) (- n 1)))))
(define-fun-rec sldrop ((a SLst) (n Int)) SLst (ite (or ((_ is SNil) a) (<= n 0)) a (sldrop (stl a) (- n 1))))
(define-fun-rec slset ((a SLst) (i Int) (x String)) SLst (ite ((_ is SNil) a) SNil (ite (<= i 0) (SCons x (stl a)) (SCons (shd a) (slset (stl a) (- i 1) x)))))
(define-fun-rec smem ((x String) (a SLst)) Bool (ite ((_ is SNil) a) false (or (= x (shd a)) (smem x (stl a)))))
(define-fun sitems ((x SSlice)) SLst (ite ((_ is Slice) x) (items x) SNil))
; ---- lists of references
(define-fun-rec rapp ((a RLst) (b RLst)) RLst (ite ((_ is RNil) a) b (RCons (rhd a) (rapp (rtl a) b))))
(define-fun rsnoc ((a RLst) (x Int)) RLst (rapp a (RCons x RNil)))
(define-fun-rec rllen ((a RLst)) Int (ite ((_ is RNil) a) 0 (+ 1 (rllen (rtl a)))))
(define-fun-rec rlnth ((a RLst) (i Int)) Int (ite ((_ is RNil) a) 0 (ite (<= i 0) (rhd a) (rlnth (rtl a) (- i 1)))))
(define-fun-rec rltake ((a RLst) (n Int)) RLst (ite (or ((_ is RNil) a) (<= n 0)) RNil (RCons (rhd a) (rltake (rtl a) (- n 1)))))
(define-fun-rec rldrop ((a RLst) (n Int)) RLst (ite (or ((_ is RNil) a) (<= n 0)) a (rldrop (rtl a) (- n 1))))
(define-fun-rec rmem ((x Int) (a RLst)) Bool (ite ((_ is RNil) a) false (or (= x (rhd a)) (rmem x (rtl a)))))

; ---- strings
(define-fun trimPrefix ((s String) (p String)) String (ite (str.prefixof p s) (str.substr s (str.len p) (- (str.len s) (str.len p))) s))
(define-fun trimSuffix ((s String) (p String)) String (ite (str.suffixof p s) (str.substr s 0 (- (str.len s) (str.len p))) s))
(declare-fun strSplit (String String) SLst)
(declare-fun strSplitN (String String Int) SLst)
(declare-fun strJoin (SLst String) String)
(declare-fun strCount (String String) Int)
(declare-fun fmtv (Val) String)      ; fmt.Sprintf("%v", x)
(declare-fun fmtInt (Int) String)    ; fmt.Sprintf("%d", n)
(declare-fun fmtRef (Int) String)    ; fmt.Sprintf("%s", ptr) through the String() method
(declare-fun isLowerRune (Int) Bool) ; unicode.IsLower
; codecs as deterministic uninterpreted functions
(declare-fun marshalS (Int Val) String)
(declare-fun marshalE (Int Val) ErrV)
(declare-fun unmarshalV (Int String) Lst)
(declare-fun unmarshalE (Int String) ErrV)

; ---- finite-map cardinality, sorted keys (assumed facts about Go maps)
(declare-fun mlen (MapC) Int)
(declare-fun mwit (MapC) String)
(declare-fun sortedKeys (MapC) SLst)
(define-fun-rec sortedFrom ((d SLst) (r SLst)) Bool true)
; ---- well-founded rank of finite trees (termination measure for structural recursion)
(declare-fun rank (Val) Int)
(declare-fun rankL (Lst) Int)
(declare-fun yamlParseF (String) Val)
(declare-fun yamlParseE (String) ErrV)
(declare-const osEnviron SLst)
; encoders bound to a buffer: the n-th Encode call of an encoder with configuration c appends encS(c, v, n) (or fails)
(declare-fun encS (Int Val Int) String)
(declare-fun encE (Int Val Int) ErrV)
(declare-const codecJSON Int)
(declare-const codecYAML Int)
(declare-const codecTOML Int)
; regular expressions (assumed contract of package regexp): rePat r is the source of a compiled expression;
; reMatches p s are the successive leftmost matches of p in s; reSubst p s rs is s with the i-th match replaced by
; the i-th element of rs and everything else kept; strTrim is strings.Trim
(declare-fun rePat (Int) String)
(declare-fun reMatches (String String) SLst)
(declare-fun reSubst (String String SLst) String)
(declare-fun strTrim (String String) String)
(declare-fun strTrimRight (String String) String)   ; strings.TrimRight(s, cutset): NOT TrimSuffix
(declare-fun strTrimLeft (String String) String)
(declare-fun reSplit (String String Int) SLst)
(declare-fun tomlParseF (String) Val)
(declare-fun tomlParseE (String) ErrV)
; the format table: fmtByName k is the codec registered under the name k (0 = no such format); fmtTable is the same as an array
(declare-const fmtTable (Array String Int))
(define-fun fmtByName ((k String)) Int (select fmtTable k))
; the file system as seen through os.Stat / filepath.Ext
(declare-fun pathExt (String) String)
(declare-fun statE (String) ErrV)
(declare-const osErrNotExist ErrV)
(define-fun fileMissing ((p String)) Bool (isErr (statE p)))   ; a file exists iff it can be stat'ed (any error: not this file)
; Go strings are byte sequences: len, s[i] and s[a:b] count bytes, while the model's strings are code-point sequences.
; byteLen / strByte / byteSub are the byte-level operations; they coincide with the code-point ones on ASCII text.
(declare-fun byteLen (String) Int)
(declare-fun strByte (String Int) Int)
(declare-fun byteSub (String Int Int) String)
(define-fun isAscii ((s String)) Bool (str.in_re s (re.* (re.range "\u{0}" "\u{7f}"))))
; a json.Decoder over a text: the k-th Decode call (assumed deterministic in configuration, text and k)
(declare-const codecJSONdec Int)
(declare-fun cfg_UseNumber (Int) Int)
(declare-fun decV (Int String Int) Val)
(declare-fun decE (Int String Int) ErrV)
(declare-fun decCount (Int String) Int)   ; the number of values before the first failing Decode (io.EOF or a real error)
(declare-const ioEOF ErrV)
; json.Number literals: the int64 parse and the float64 parse of the text (strconv)
(declare-fun numInt64 (String) Int)
(declare-fun numInt64E (String) ErrV)
(declare-fun numFloat (String) Int)
(declare-fun numFloatE (String) ErrV)
; YAML scalars: the resolved short tag of a node and the strconv parses of its text
(declare-fun yamlShortTag (Int) String)
(declare-fun parseBoolV (String) Bool)
(declare-fun parseBoolE (String) ErrV)
(declare-fun parseIntV (String Int Int) Int)
(declare-fun parseIntE (String Int Int) ErrV)
(declare-fun parseFloatV (String Int) Int)
(declare-fun parseFloatE (String Int) ErrV)
