; ---------------------------------------------------------------------------------------------
; bklr: the $required skeleton (property C17), written from the property statement.
;   hasReq v   : v contains a "$required" string value at some position (map value or list entry, any depth)
;   reqF v     : the skeleton of v: "$required" leaves kept; a container keeps exactly the children that contain a
;                marker (maps: under the same keys; lists: in the same order); everything else dropped; VNil if none.
; reqF recurses through map values, which define-fun-rec cannot express over arrays; it is therefore declared and
; characterised by reqRel (one axiom: reqF satisfies its defining equations; existence = structural recursion on
; finite trees). Uniqueness is not assumed; it follows per instance from array extensionality.
; ---------------------------------------------------------------------------------------------
(define-funs-rec (
  (hasReq ((v Val)) Bool)
  (hasReqL ((l Lst)) Bool))
 ((ite ((_ is VStr) v) (= (sv v) "$required")
  (ite ((_ is VList) v) (hasReqL (ls v))
  (ite ((_ is VMap) v) (exists ((k String)) (hasReq (select (mc v) k)))
  false)))
  (ite ((_ is LNil) l) false (or (hasReq (hd l)) (hasReqL (tl l))))))
(declare-fun reqF (Val) Val)
(define-fun-rec reqLstF ((l Lst)) Lst
  (ite ((_ is LNil) l) LNil
  (ite (hasReq (hd l)) (LCons (reqF (hd l)) (reqLstF (tl l))) (reqLstF (tl l)))))
(define-fun reqEnt ((c Val) (rc Val)) Bool (ite (hasReq c) (= rc (reqF c)) (= rc VAbsent)))
(define-fun reqRel ((v Val) (r Val)) Bool
  (ite (not (hasReq v)) (= r VNil)
  (ite ((_ is VStr) v) (= r v)
  (ite ((_ is VList) v) (= r (VList (reqLstF (ls v))))
  (ite ((_ is VMap) v) (and ((_ is VMap) r) (forall ((k String)) (reqEnt (select (mc v) k) (select (mc r) k))))
  false)))))
; AX reqF-def: reqF satisfies its defining equations
(assert (forall ((v Val)) (! (reqRel v (reqF v)) :pattern ((reqF v)))))

; ---------------------------------------------------------------------------------------------
; bkli: intersection (C16), from the property statement.
;   interF a b : what a and b have in common: a map keeps exactly the keys present in both; equal scalars are kept;
;                present-in-both-but-different (including different kinds) becomes "$required"; lists keep the
;                entries of a that also occur in b (in a's order, each once), and "$required" if nothing is common
;                (two empty lists are identical and intersect to the empty list).
;   nil on either side yields nil (nothing in common).
; ---------------------------------------------------------------------------------------------
(declare-fun interF (Val Val) Val)
(define-fun-rec lmem ((x Val) (l Lst)) Bool (ite ((_ is LNil) l) false (or (= x (hd l)) (lmem x (tl l)))))
(define-fun-rec keepCommon ((a Lst) (b Lst)) Lst
  (ite ((_ is LNil) a) LNil (ite (lmem (hd a) b) (LCons (hd a) (keepCommon (tl a) b)) (keepCommon (tl a) b))))
(define-fun interEnt ((av Val) (bv2 Val) (rv Val)) Bool
  (ite (or (= av VAbsent) (= bv2 VAbsent)) (= rv VAbsent)
  (ite (and (= av VNil) (= bv2 VNil)) (= rv VNil)
  (ite (= (interF av bv2) VNil) (= rv VAbsent) (= rv (interF av bv2))))))
(define-fun interRel ((a Val) (b Val) (r Val)) Bool
  (ite (or (= b VNil) (= a VNil)) (= r VNil)
  (ite ((_ is VMap) a)
       (ite ((_ is VMap) b)
            (and ((_ is VMap) r) (forall ((k String)) (interEnt (select (mc a) k) (select (mc b) k) (select (mc r) k))))
            (= r (VStr "$required")))
  (ite ((_ is VList) a)
       (ite ((_ is VList) b)
            (= r (VList (ite (and (= (keepCommon (ls a) (ls b)) LNil) (not (and (= (ls a) LNil) (= (ls b) LNil))))
                             (LCons (VStr "$required") LNil) (keepCommon (ls a) (ls b)))))
            (= r (VStr "$required")))
  (ite (= a b) (= r a) (= r (VStr "$required")))))))
; AX interF-def
(assert (forall ((a Val) (b Val)) (! (interRel a b (interF a b)) :pattern ((interF a b)))))
(define-fun-rec allIn ((a Lst) (b Lst)) Bool (ite ((_ is LNil) a) true (and (lmem (hd a) b) (allIn (tl a) b))))

; ---------------------------------------------------------------------------------------------
; bkld: round trip (C15), from the property statement: merging diff(target, base) onto base gives target.
;   plainT v      : target trees are null-free and "$"-free (quantifier of the property)
;   kindBad t b   : classes for which the statement does not hold on the pinned tree (finding F13): a container
;                   changes kind where bkl's merge rules reject the override (scalar/list over a non-empty map,
;                   scalar/map over a list), or a list pair outside listClean
;   listClean t b : list pairs for which the emitted list layer is claimed: equal lists, or a removed entry that is
;                   not a map (the whole-list $replace fallback). Entry-level patches (added / deleted map entries,
;                   reordering, duplicates) are not claimed here.
; ---------------------------------------------------------------------------------------------
(define-fun dollarStr ((s String)) Bool (str.prefixof "$" s))
(define-funs-rec (
  (plainT ((v Val)) Bool)
  (plainTL ((l Lst)) Bool))
 ((ite ((_ is VStr) v) (not (dollarStr (sv v)))
  (ite ((_ is VList) v) (plainTL (ls v))
  (ite ((_ is VMap) v) (forall ((k String)) (=> (not (= (select (mc v) k) VAbsent)) (and (not (dollarStr k)) (plainT (select (mc v) k)))))
  (not (= v VNil)))))
  (ite ((_ is LNil) l) true (and (plainT (hd l)) (plainTL (tl l))))))
(define-fun-rec hasNonMapRemoved ((bl Lst) (tl2 Lst)) Bool
  (ite ((_ is LNil) bl) false
       (or (and (not (lmem (hd bl) tl2)) (not ((_ is VMap) (hd bl)))) (hasNonMapRemoved (tl bl) tl2))))
(define-fun listClean ((t Lst) (b Lst)) Bool (or (= t b) (hasNonMapRemoved b t)))
(define-funs-rec (
  (kindBad ((t Val) (b Val)) Bool))
 ((ite ((_ is VMap) t)
       (ite ((_ is VMap) b) (exists ((k String)) (and (not (= (select (mc t) k) VAbsent)) (not (= (select (mc b) k) VAbsent))
                                                      (kindBad (select (mc t) k) (select (mc b) k))))
            ((_ is VList) b))
  (ite ((_ is VList) t)
       (ite ((_ is VList) b) (not (listClean (ls t) (ls b)))
            (and ((_ is VMap) b) (not (= (mlen (mc b)) 0))))
  (ite ((_ is VMap) b) (not (= (mlen (mc b)) 0)) ((_ is VList) b))))))
; entries of a that do not occur in b (in a's order)
(define-fun-rec keepNotIn ((a Lst) (b Lst)) Lst
  (ite ((_ is LNil) a) LNil (ite (lmem (hd a) b) (keepNotIn (tl a) b) (LCons (hd a) (keepNotIn (tl a) b)))))
(define-fun replaceMarker () Val (VMap (store emptyM "$replace" (VBool true))))
