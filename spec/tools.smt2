; ---------------------------------------------------------------------------------------------
; bklr: the $required skeleton (property C17), written from the property statement.
;   hasReq v   : v contains a "$required" string value at some position (map value or list entry, any depth)
;   reqF v     : the skeleton of v: "$required" leaves kept; a container keeps exactly the children that contain a
;                marker (maps: under the same keys; lists: in the same order); everything else dropped; VNil if none.
; reqF recurses through map values, which define-fun-rec cannot express over arrays; it is therefore declared and
; characterised by reqRel (one axiom: reqF satisfies its defining equations; existence = structural recursion on
; finite trees). Uniqueness is not assumed; it follows per instance from array extensionality.
; ---------------------------------------------------------------------------------------------
(define-funs-rec (
  (hasReq ((v Val)) Bool)
  (hasReqL ((l Lst)) Bool))
 ((ite ((_ is VStr) v) (= (sv v) "$required")
  (ite ((_ is VList) v) (hasReqL (ls v))
  (ite ((_ is VMap) v) (exists ((k String)) (hasReq (select (mc v) k)))
  false)))
  (ite ((_ is LNil) l) false (or (hasReq (hd l)) (hasReqL (tl l))))))
(declare-fun reqF (Val) Val)
(define-fun-rec reqLstF ((l Lst)) Lst
  (ite ((_ is LNil) l) LNil
  (ite (hasReq (hd l)) (LCons (reqF (hd l)) (reqLstF (tl l))) (reqLstF (tl l)))))
(define-fun reqEnt ((c Val) (rc Val)) Bool (ite (hasReq c) (= rc (reqF c)) (= rc VAbsent)))
(define-fun reqRel ((v Val) (r Val)) Bool
  (ite (not (hasReq v)) (= r VNil)
  (ite ((_ is VStr) v) (= r v)
  (ite ((_ is VList) v) (= r (VList (reqLstF (ls v))))
  (ite ((_ is VMap) v) (and ((_ is VMap) r) (forall ((k String)) (reqEnt (select (mc v) k) (select (mc r) k))))
  false)))))
; AX reqF-def: reqF satisfies its defining equations
(assert (forall ((v Val)) (! (reqRel v (reqF v)) :pattern ((reqF v)))))
