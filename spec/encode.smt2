; ---------------------------------------------------------------------------------------------
; encode.smt2 — $encode transforms (C14) and the termination measure of their dispatch (C08)
;   flagsIn v : 1 if the transform description v (a string, or a list of them) contains a "flags" transform, else 0
; ---------------------------------------------------------------------------------------------
(define-funs-rec (
  (flagsIn ((v Val)) Int)
  (flagsInL ((l Lst)) Int))
 ((ite ((_ is VStr) v) (ite (= (shd (strSplit (sv v) ":")) "flags") 1 0)
  (ite ((_ is VList) v) (flagsInL (ls v)) 0))
  (ite ((_ is LNil) l) 0 (ite (> (flagsIn (hd l)) (flagsInL (tl l))) (flagsIn (hd l)) (flagsInL (tl l))))))
