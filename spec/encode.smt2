; ---------------------------------------------------------------------------------------------
; encode.smt2 — $encode transforms (C14) and the termination measure of their dispatch (C08)
;   flagsIn v : 1 if the transform description v (a string, or a list of them) contains a "flags" transform, else 0
; ---------------------------------------------------------------------------------------------
(define-funs-rec (
  (flagsIn ((v Val)) Int)
  (flagsInL ((l Lst)) Int))
 ((ite ((_ is VStr) v) (ite (= (shd (strSplit (sv v) ":")) "flags") 1 0)
  (ite ((_ is VList) v) (flagsInL (ls v)) 0))
  (ite ((_ is LNil) l) 0 (ite (> (flagsIn (hd l)) (flagsInL (tl l))) (flagsIn (hd l)) (flagsInL (tl l))))))

; ---- the transforms themselves (C14), from the property statement and docs/index.html ("$encode")
(declare-fun b64 (String) String)        ; encoding/base64 StdEncoding (assumed to be the standard encoding)
(declare-fun sha256raw (String) String)  ; crypto/sha256 digest of the bytes written (assumed)
(declare-fun hexenc (String) String)     ; encoding/hex.EncodeToString (assumed)
(define-fun-rec fmtvL ((l Lst)) SLst (ite ((_ is LNil) l) SNil (SCons (fmtv (hd l)) (fmtvL (tl l)))))
(define-fun-rec prefixL ((p String) (sl SLst)) Lst (ite ((_ is SNil) sl) LNil (LCons (VStr (str.++ p (shd sl))) (prefixL p (stl sl)))))
(define-fun-rec flat1 ((l Lst)) Lst
  (ite ((_ is LNil) l) LNil (app (ite ((_ is VList) (hd l)) (ls (hd l)) (LCons (hd l) LNil)) (flat1 (tl l)))))
(define-fun-rec valuesK ((m MapC) (ks SLst)) Lst (ite ((_ is SNil) ks) LNil (LCons (select m (shd ks)) (valuesK m (stl ks)))))
(define-fun tolistVal ((k String) (d String) (v Val)) Val
  (VStr (ite (= v (VStr "")) k (str.++ k d (fmtv v)))))
(define-fun-rec tolistVals ((k String) (d String) (l Lst)) Lst
  (ite ((_ is LNil) l) LNil (LCons (tolistVal k d (hd l)) (tolistVals k d (tl l)))))
(define-fun-rec tolistK ((m MapC) (ks SLst) (d String)) Lst
  (ite ((_ is SNil) ks) LNil
       (app (ite ((_ is VList) (select m (shd ks))) (tolistVals (shd ks) d (ls (select m (shd ks))))
                 (LCons (tolistVal (shd ks) d (select m (shd ks))) LNil))
            (tolistK m (stl ks) d))))
(define-fun tolistMap ((v Val) (d String)) Lst (tolistK (mc v) (sortedKeys (mc v)) d))
(define-fun-rec tolistL ((l Lst) (d String)) Lst (ite ((_ is LNil) l) LNil (app (tolistMap (hd l) d) (tolistL (tl l) d))))
(define-fun-rec allMaps ((l Lst)) Bool (ite ((_ is LNil) l) true (and ((_ is VMap) (hd l)) (allMaps (tl l)))))

; ---- dispatch of one transform string "cmd[:arg]" and of transform lists (left fold)
(define-fun encCmd ((v String)) String (shd (strSplit v ":")))
(define-fun encN ((v String)) Int (sllen (strSplit v ":")))
(define-fun encArg ((v String)) String (slnth (strSplit v ":") 1))
(declare-fun encStrF (Val String) Val)
(declare-fun encStrE (Val String) Bool)
(define-funs-rec (
  (encAnyF ((o Val) (v Val)) Val)
  (encFoldF ((o Val) (l Lst)) Val)
  (encAnyE ((o Val) (v Val)) Bool)
  (encFoldE ((o Val) (l Lst)) Bool))
 ((ite ((_ is VStr) v) (encStrF o (sv v)) (ite ((_ is VList) v) (encFoldF o (ls v)) VNil))
  (ite ((_ is LNil) l) o (encFoldF (encAnyF o (hd l)) (tl l)))
  (ite ((_ is VStr) v) (encStrE o (sv v)) (ite ((_ is VList) v) (encFoldE o (ls v)) true))
  (ite ((_ is LNil) l) false (or (encAnyE o (hd l)) (encFoldE (encAnyF o (hd l)) (tl l))))))
(define-fun flagsList () Val (VList (LCons (VStr "tolist:=") (LCons (VStr "prefix:--") LNil))))
; the error cases of one transform (malformed arguments, wrong kind of value)
(define-fun encStrErrSpec ((o Val) (v String)) Bool
  (let ((c (encCmd v)) (n (encN v)))
  (ite (= c "base64") (not (= n 1))
  (ite (= c "flags") (or (not (= n 1)) (encAnyE o flagsList))
  (ite (= c "flatten") (or (not (= n 1)) (not ((_ is VList) o)))
  (ite (= c "join") (or (> n 2) (not ((_ is VList) o)))
  (ite (= c "prefix") (or (not (= n 2)) (not ((_ is VList) o)))
  (ite (= c "sha256") (not (= n 1))
  (ite (= c "tolist") (or (not (= n 2)) (ite ((_ is VList) o) (not (allMaps (ls o))) (not ((_ is VMap) o))))
  (ite (= c "values") (or (not (= n 1)) (not ((_ is VMap) o)))
  (or (not (= n 1)) (= (fmtByName c) 0) (isErr (marshalE (fmtByName c) (VList (LCons o LNil)))))))))))))))
; the value of one transform when it is not an error
(define-fun encStrRel ((o Val) (v String) (r Val)) Bool
  (let ((c (encCmd v)) (n (encN v)))
  (ite (= c "base64") (= r (VStr (b64 (fmtv (finF o)))))
  (ite (= c "flags") (= r (encAnyF o flagsList))
  (ite (= c "flatten") (= r (VList (flat1 (ls o))))
  (ite (= c "join") (= r (VStr (strJoin (fmtvL (ls o)) (ite (= n 2) (encArg v) ""))))
  (ite (= c "prefix") (= r (VList (prefixL (encArg v) (fmtvL (ls o)))))
  (ite (= c "sha256") (= r (VStr (hexenc (sha256raw (str.++ "" (fmtv (finF o)))))))
  (ite (= c "tolist") (= r (VList (ite ((_ is VList) o) (tolistL (ls o) (encArg v)) (tolistMap o (encArg v)))))
  (ite (= c "values") (= r (VList (valuesK (mc o) (sortedKeys (mc o)))))
  (= r (VStr (marshalS (fmtByName c) (VList (LCons o LNil)))))))))))))))
; AX encStrF-def: encStrF/encStrE are the transform function and its error predicate
(assert (forall ((o Val) (v String)) (! (= (encStrE o v) (encStrErrSpec o v)) :pattern ((encStrE o v)))))
(assert (forall ((o Val) (v String)) (! (=> (not (encStrE o v)) (encStrRel o v (encStrF o v))) :pattern ((encStrF o v)))))
