; ---------------------------------------------------------------------------------------------
; stream.smt2 — applying a layer document to a stream of stored documents (C02), from the property statement.
;   filterMatch h ds p    : the documents of ds (in order) whose data matches pattern p
;   rdistinct ds          : no document occurs twice
;   appliedTo h h2 ts s   : exactly the documents in ts received mergeF(old data, s); every other document is untouched
;   anyRejected h ts s    : merging s into some target is rejected
; parentsOf is the list p.parents(patch) returns (the stored documents that descend from the patch's parent layer, in
; stream order); it is an uninterpreted function of the parts of the heap it reads (assumed contract of Parser.parents).
; ---------------------------------------------------------------------------------------------
(define-fun-rec filterMatch ((h (Array Int Val)) (ds RLst) (p Val)) RLst
  (ite ((_ is RNil) ds) RNil
       (ite (matchS (select h (rhd ds)) p) (RCons (rhd ds) (filterMatch h (rtl ds) p)) (filterMatch h (rtl ds) p))))
(define-fun-rec rdistinct ((ds RLst)) Bool
  (ite ((_ is RNil) ds) true (and (not (rmem (rhd ds) (rtl ds))) (rdistinct (rtl ds)))))
(define-fun appliedTo ((h (Array Int Val)) (h2 (Array Int Val)) (ts RLst) (s Val)) Bool
  (forall ((r Int)) (= (select h2 r) (ite (rmem r ts) (mergeF (select h r) s) (select h r)))))
(define-fun-rec anyRejected ((h (Array Int Val)) (ts RLst) (s Val)) Bool
  (ite ((_ is RNil) ts) false (or (mergeErr (select h (rhd ts)) s) (anyRejected h (rtl ts) s))))
; wfDocs ds top : representation invariant of the stored document list: distinct, non-nil objects that exist (below top)
(define-fun-rec wfDocs ((ds RLst) (top Int)) Bool
  (and (rdistinct ds) (forall ((r Int)) (=> (rmem r ds) (and (not (= r 0)) (< r top))))))
; freshDocs ds lo hi : distinct, non-nil objects allocated in [lo, hi)
(define-fun-rec freshDocs ((ds RLst) (lo Int) (hi Int)) Bool
  (and (rdistinct ds) (forall ((r Int)) (=> (rmem r ds) (and (not (= r 0)) (>= r lo) (< r hi))))))

; ---- which stored documents descend from a patch's parent layer ("transitive parent identity by document ID")
;   ancIDs hp hid d : the set of document IDs reachable from d through Parents (one or more steps)
;   ancVia hp hid ds id : id is the ID of a document in ds, or of one of its ancestors
; ancIDs is the least set satisfying its defining equation (AX ancIDs-def); parentsOf is then *defined*: the stored
; documents, in stream order, whose ID is in that set.
(declare-fun ancIDs ((Array Int RLst) (Array Int String) Int) (Array String Bool))
(define-fun-rec ancVia ((hp (Array Int RLst)) (hid (Array Int String)) (ds RLst) (id String)) Bool
  (ite ((_ is RNil) ds) false
       (or (= (select hid (rhd ds)) id) (select (ancIDs hp hid (rhd ds)) id) (ancVia hp hid (rtl ds) id))))
(define-fun-rec filterAnc ((hid (Array Int String)) (anc (Array String Bool)) (ds RLst)) RLst
  (ite ((_ is RNil) ds) RNil
       (ite (select anc (select hid (rhd ds))) (RCons (rhd ds) (filterAnc hid anc (rtl ds))) (filterAnc hid anc (rtl ds)))))
(define-fun parentsOf ((hdocs (Array Int RLst)) (hid (Array Int String)) (hp (Array Int RLst)) (p Int) (patch Int)) RLst
  (filterAnc hid (ancIDs hp hid patch) (select hdocs p)))
; AX ancIDs-def
(assert (forall ((hp (Array Int RLst)) (hid (Array Int String)) (d Int) (id String))
  (! (= (select (ancIDs hp hid d) id) (ancVia hp hid (select hp d) id)) :pattern ((select (ancIDs hp hid d) id)))))
; ---- the documents of a whole chain of loaded files
;   allFileDocs h fs : the documents of the files fs, in order (h: the field file.docs)
(define-fun-rec allFileDocs ((h (Array Int RLst)) (fs RLst)) RLst
  (ite ((_ is RNil) fs) RNil (rapp (select h (rhd fs)) (allFileDocs h (rtl fs)))))
(define-fun-rec allBelow ((fs RLst) (lo Int) (hi Int)) Bool
  (ite ((_ is RNil) fs) true (and (not (= (rhd fs) 0)) (>= (rhd fs) lo) (< (rhd fs) hi) (allBelow (rtl fs) lo hi))))
