; ---------------------------------------------------------------------------------------------
; output.smt2 — $output selection and hiding (C11), from the property statement.
;   outMarked v : v is a map with "$output": true, or a list with a marker entry {"$output": true}
;   stripF v    : v with every $output:true marker removed, at every depth
;   selF v      : the selected subtrees, stripped, in the fixed order: a map first, then its children by ascending key;
;                 a list's children in order, then the list itself
;   hideF v     : VNil if v carries $output:false; else v without its hidden (or null) children
;   outBad v b  : somewhere in v a list holds a map that carries "$output": b together with other keys. The statement
;                 treats such a map as a marked map like any other; the code rejects it ("extra keys") — finding F15.
;                 The clauses below are stated for trees without that shape.
; ---------------------------------------------------------------------------------------------
(declare-fun stripF (Val) Val)
(declare-fun hideF (Val) Val)
(define-fun mapFlag ((m MapC) (b Bool)) Bool (= (select m "$output") (VBool b)))
(define-fun unflag ((m MapC) (b Bool)) MapC (ite (mapFlag m b) (store m "$output" VAbsent) m))

(define-funs-rec (
  (outBad ((v Val) (b Bool)) Bool)
  (outBadK ((m MapC) (ks SLst) (b Bool)) Bool)
  (outBadL ((l Lst) (b Bool)) Bool))
 ((ite ((_ is VMap) v)
       (ite (and (not b) (mapFlag (mc v) false)) false (outBadK (unflag (mc v) b) (sortedKeys (unflag (mc v) b)) b))
  (ite ((_ is VList) v)
       (or (markerExtra (ls v) "$output" b)
           (and (not (and (not b) (anyBoolKey (ls v) "$output" false))) (outBadL (dropMarkers (ls v) "$output" b) b)))
  false))
  (ite ((_ is SNil) ks) false (or (outBad (select m (shd ks)) b) (outBadK m (stl ks) b)))
  (ite ((_ is LNil) l) false (or (outBad (hd l) b) (outBadL (tl l) b)))))

(define-fun-rec stripL ((l Lst)) Lst (ite ((_ is LNil) l) LNil (LCons (stripF (hd l)) (stripL (tl l)))))
(define-fun stripRel ((v Val) (r Val)) Bool
  (ite ((_ is VMap) v)
       (and ((_ is VMap) r)
            (forall ((k String)) (= (select (mc r) k)
                 (ite (= (select (unflag (mc v) true) k) VAbsent) VAbsent (stripF (select (unflag (mc v) true) k))))))
  (ite ((_ is VList) v) (= r (VList (stripL (dropMarkers (ls v) "$output" true))))
  (= r v))))
; AX stripF-def
(assert (forall ((v Val)) (! (stripRel v (stripF v)) :pattern ((stripF v)))))

(define-funs-rec (
  (selF ((v Val)) Lst)
  (selK ((m MapC) (ks SLst)) Lst)
  (selL ((l Lst)) Lst))
 ((ite ((_ is VMap) v)
       (app (ite (mapFlag (mc v) true) (LCons (stripF v) LNil) LNil)
            (selK (unflag (mc v) true) (sortedKeys (unflag (mc v) true))))
  (ite ((_ is VList) v)
       (app (selL (dropMarkers (ls v) "$output" true))
            (ite (anyBoolKey (ls v) "$output" true) (LCons (stripF v) LNil) LNil))
  LNil))
  (ite ((_ is SNil) ks) LNil (app (selF (select m (shd ks))) (selK m (stl ks))))
  (ite ((_ is LNil) l) LNil (app (selF (hd l)) (selL (tl l))))))

(define-fun hidden ((v Val)) Bool
  (or (and ((_ is VMap) v) (mapFlag (mc v) false))
      (and ((_ is VList) v) (anyBoolKey (ls v) "$output" false))))
(define-fun-rec hideL ((l Lst)) Lst
  (ite ((_ is LNil) l) LNil
  (ite (= (hideF (hd l)) VNil) (hideL (tl l)) (LCons (hideF (hd l)) (hideL (tl l))))))
(define-fun hideRel ((v Val) (r Val)) Bool
  (ite (hidden v) (= r VNil)
  (ite ((_ is VMap) v)
       (and ((_ is VMap) r)
            (forall ((k String)) (= (select (mc r) k)
                 (ite (or (= (select (mc v) k) VAbsent) (= (hideF (select (mc v) k)) VNil)) VAbsent (hideF (select (mc v) k))))))
  (ite ((_ is VList) v) (= r (VList (hideL (ls v))))
  (= r v)))))
; AX hideF-def
(assert (forall ((v Val)) (! (hideRel v (hideF v)) :pattern ((hideF v)))))

; ---- finalize: "$$" -> "$" in every key and string value (C06, C09). Keys are visited in ascending order, so when two
; keys become equal after unescaping the greater one wins: the result is a function of the input.
(define-fun unesc ((s String)) String (str.replace_all s "$$" "$"))
(declare-fun finF (Val) Val)
(define-fun-rec finL ((l Lst)) Lst (ite ((_ is LNil) l) LNil (LCons (finF (hd l)) (finL (tl l)))))
(define-fun-rec finFold ((acc MapC) (m MapC) (ks SLst)) MapC
  (ite ((_ is SNil) ks) acc (finFold (store acc (unesc (shd ks)) (finF (select m (shd ks)))) m (stl ks))))
(define-fun finRel ((v Val) (r Val)) Bool
  (ite ((_ is VStr) v) (= r (VStr (unesc (sv v))))
  (ite ((_ is VList) v) (= r (VList (finL (ls v))))
  (ite ((_ is VMap) v) (= r (VMap (finFold emptyM (mc v) (sortedKeys (mc v)))))
  (= r v)))))
; AX finF-def
(assert (forall ((v Val)) (! (finRel v (finF v)) :pattern ((finF v)))))

; ---- per-document output pipeline (C11, C07): candidates, then per-candidate hiding
(define-fun cands ((v Val)) Lst (ite (= (selF v) LNil) (LCons (stripF v) LNil) (selF v)))
(define-fun-rec candsL ((h (Array Int Val)) (ds RLst)) Lst
  (ite ((_ is RNil) ds) LNil (app (cands (select h (rhd ds))) (candsL h (rtl ds)))))
(define-fun-rec candsBad ((h (Array Int Val)) (ds RLst)) Bool
  (ite ((_ is RNil) ds) false (or (outBad (select h (rhd ds)) true) (candsBad h (rtl ds)))))
(define-fun-rec emitF ((cs Lst)) Lst
  (ite ((_ is LNil) cs) LNil
  (ite (= (hideF (hd cs)) VNil) (emitF (tl cs)) (LCons (finF (hideF (hd cs))) (emitF (tl cs))))))
(define-fun-rec emitErr ((cs Lst)) Bool
  (ite ((_ is LNil) cs) false
       (or (outBad (hd cs) false)
           (and (not (= (hideF (hd cs)) VNil)) (not (noMarker (hideF (hd cs)))))
           (emitErr (tl cs)))))
