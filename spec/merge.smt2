; ---------------------------------------------------------------------------------------------
; merge.smt2 — the documented layer-merge rules (properties C01, C02, C06, C10, C15, C16), written from the
; property statement and docs/index.html ("Maps", "Lists", "$match"), not from the code.
;
;   matchS o p        : pattern p matches o (subset match; "$invert": true negates; a map that is only a
;                       $merge/$replace/$encode placeholder matches nothing; absent keys read as null)
;   mergeErr d s      : layering child s over parent d is rejected
;   mergeF d s        : the result of layering s over d (meaningful when not rejected)
;   mergeRel d s r    : r is that result (the defining equations of mergeF)
; mergeF recurses through map values, which define-fun-rec cannot express over arrays; it is declared and
; characterised by one axiom (mergeF satisfies mergeRel wherever the merge is accepted).
; ---------------------------------------------------------------------------------------------
(define-fun present ((m MapC) (k String)) Bool (not (= (select m k) VAbsent)))
(define-fun orNil ((v Val)) Val (ite (= v VAbsent) VNil v))
(define-fun isScalar ((v Val)) Bool (and (not ((_ is VMap) v)) (not ((_ is VList) v)) (not (= v VNil)) (not (= v VAbsent))))
(define-fun placeholder ((m MapC)) Bool
  (and (= (mlen m) 1) (or (present m "$merge") (present m "$replace") (present m "$encode"))))

(define-funs-rec (
  (matchS ((o Val) (p Val)) Bool)
  (matchCore ((o Val) (pm MapC)) Bool)
  (allMatchL ((ol Lst) (pl Lst)) Bool)
  (anyMatchL ((ol Lst) (p Val)) Bool))
 ((ite ((_ is VMap) p)
       (ite (= (select (mc p) "$invert") (VBool true))
            (not (matchCore o (store (mc p) "$invert" VAbsent)))
            (matchCore o (mc p)))
  (ite ((_ is VList) p)
       (and ((_ is VList) o) (allMatchL (ls o) (ls p)))
       (= o p)))
  (and ((_ is VMap) o) (not (placeholder (mc o)))
       (forall ((k String)) (=> (present pm k) (matchS (orNil (select (mc o) k)) (select pm k)))))
  (ite ((_ is LNil) pl) true (and (anyMatchL ol (hd pl)) (allMatchL ol (tl pl))))
  (ite ((_ is LNil) ol) false (or (matchS (hd ol) p) (anyMatchL (tl ol) p)))))

; ---- list helpers of the merge rules
(define-fun-rec memStr ((l Lst) (s String)) Bool
  (ite ((_ is LNil) l) false (or (= (hd l) (VStr s)) (memStr (tl l) s))))
(define-fun-rec removeStr ((l Lst) (s String)) Lst
  (ite ((_ is LNil) l) LNil (ite (= (hd l) (VStr s)) (removeStr (tl l) s) (LCons (hd l) (removeStr (tl l) s)))))
(define-fun hasBoolKey ((v Val) (k String) (b Bool)) Bool (and ((_ is VMap) v) (= (select (mc v) k) (VBool b))))
(define-fun-rec anyBoolKey ((l Lst) (k String) (b Bool)) Bool
  (ite ((_ is LNil) l) false (or (hasBoolKey (hd l) k b) (anyBoolKey (tl l) k b))))
; a marker entry {k: b} must have no other key
(define-fun onlyKey ((m MapC) (k String)) Bool (forall ((j String)) (=> (not (= j k)) (= (select m j) VAbsent))))
(define-fun-rec markerExtra ((l Lst) (k String) (b Bool)) Bool
  (ite ((_ is LNil) l) false
       (or (and (hasBoolKey (hd l) k b) (not (onlyKey (mc (hd l)) k))) (markerExtra (tl l) k b))))
(define-fun-rec dropMarkers ((l Lst) (k String) (b Bool)) Lst
  (ite ((_ is LNil) l) LNil
       (ite (hasBoolKey (hd l) k b) (dropMarkers (tl l) k b) (LCons (hd l) (dropMarkers (tl l) k b)))))
(define-fun-rec filterNot ((l Lst) (p Val)) Lst
  (ite ((_ is LNil) l) LNil (ite (matchS (hd l) p) (filterNot (tl l) p) (LCons (hd l) (filterNot (tl l) p)))))

(declare-fun mergeF (Val Val) Val)
(define-fun minus ((m MapC) (k String)) MapC (store m k VAbsent))

(define-funs-rec (
  (mergeErr ((d Val) (s Val)) Bool)
  (entErr ((dv Val) (sv2 Val)) Bool)
  (llErr ((dl Lst) (sl Lst)) Bool)
  (foldErr ((acc Lst) (sl Lst)) Bool)
  (stepErr ((acc Lst) (v Val)) Bool)
  (fold ((acc Lst) (sl Lst)) Lst)
  (step ((acc Lst) (v Val)) Lst)
  (matchVal ((vm MapC)) Val)
  (mapMatchErr ((l Lst) (m Val) (val Val)) Bool)
  (mapMatch ((l Lst) (m Val) (val Val)) Lst))
 (; mergeErr d s
  (ite ((_ is VMap) d)
     (ite ((_ is VMap) s)
          (and (not (= (select (mc s) "$replace") (VBool true)))
               (exists ((k String)) (entErr (select (mc d) k) (select (mc s) k))))
     (ite (= s VNil) false (not (= (mlen (mc d)) 0))))
  (ite ((_ is VList) d)
     (ite ((_ is VList) s) (llErr (ls d) (ls s)) (not (= s VNil)))
  (ite (= d VNil) false (= s d))))
  ; entErr dv sv : key-wise rejection
  (ite (= sv2 VAbsent) false
  (ite (= sv2 (VStr "$delete")) (= dv VAbsent)
  (ite (= dv VAbsent) false (mergeErr dv sv2))))
  ; llErr dl sl : list over list
  (ite (memStr sl "$replace") false
  (ite (anyBoolKey sl "$replace" true) (markerExtra sl "$replace" true)
       (foldErr (removeStr dl "$required") sl)))
  ; foldErr acc sl
  (ite ((_ is LNil) sl) false (or (stepErr acc (hd sl)) (foldErr (step acc (hd sl)) (tl sl))))
  ; stepErr acc v
  (ite (not ((_ is VMap) v)) false
  (ite (present (mc v) "$delete")
       (or (not (onlyKey (mc v) "$delete")) (not (anyMatchL acc (select (mc v) "$delete"))))
  (ite (present (mc v) "$match")
       (or (and (present (mc v) "$value") (not (forall ((j String)) (=> (and (not (= j "$match")) (not (= j "$value"))) (= (select (mc v) j) VAbsent)))))
           (not (anyMatchL acc (select (mc v) "$match")))
           (mapMatchErr acc (select (mc v) "$match") (matchVal (mc v))))
       false)))
  ; fold acc sl
  (ite ((_ is LNil) sl) acc (fold (step acc (hd sl)) (tl sl)))
  ; step acc v
  (ite (not ((_ is VMap) v)) (snoc acc v)
  (ite (present (mc v) "$delete") (filterNot acc (select (mc v) "$delete"))
  (ite (present (mc v) "$match") (mapMatch acc (select (mc v) "$match") (matchVal (mc v)))
       (snoc acc v))))
  ; matchVal vm : the value merged into each matching entry: "$value" if given, else the entry minus "$match"
  (ite (present vm "$value") (select vm "$value") (VMap (minus vm "$match")))
  ; mapMatchErr / mapMatch
  (ite ((_ is LNil) l) false
       (or (and (matchS (hd l) m) (mergeErr (hd l) val)) (mapMatchErr (tl l) m val)))
  (ite ((_ is LNil) l) LNil
       (LCons (ite (matchS (hd l) m) (mergeF (hd l) val) (hd l)) (mapMatch (tl l) m val)))))

(define-fun llF ((dl Lst) (sl Lst)) Lst
  (ite (memStr sl "$replace") (removeStr sl "$replace")
  (ite (anyBoolKey sl "$replace" true) (dropMarkers sl "$replace" true)
       (fold (removeStr dl "$required") sl))))

(define-fun entRel ((dv Val) (sv2 Val) (rv Val)) Bool
  (ite (= sv2 VAbsent) (= rv dv)
  (ite (= sv2 (VStr "$delete")) (= rv VAbsent)
  (ite (= dv VAbsent) (= rv sv2) (= rv (mergeF dv sv2))))))

(define-fun mergeRel ((d Val) (s Val) (r Val)) Bool
  (ite ((_ is VMap) d)
     (ite ((_ is VMap) s)
          (ite (= (select (mc s) "$replace") (VBool true))
               (= r (VMap (minus (mc s) "$replace")))
               (and ((_ is VMap) r)
                    (forall ((k String)) (entRel (select (mc d) k) (select (mc s) k) (select (mc r) k)))))
     (ite (= s VNil) (= r d) (= r s)))
  (ite ((_ is VList) d)
     (ite ((_ is VList) s) (= r (VList (llF (ls d) (ls s)))) (= r d))
  (= r s))))
; AX mergeF-def: mergeF satisfies its defining equations wherever the merge is accepted
(assert (forall ((d Val) (s Val)) (! (=> (not (mergeErr d s)) (mergeRel d s (mergeF d s))) :pattern ((mergeF d s)))))
