; ---------------------------------------------------------------------------------------------
; plain.smt2 — pass-through of plain / escaped data (C06), from the property statement.
;   escS s   : s does not start with a single "$": it does not start with "$", or it starts with "$$"
;   escV v   : every key and every string value of v, at every depth, satisfies escS  (plain data and data whose
;              dollars were doubled both satisfy it)
;   dropF v  : v with null-valued map entries and null list entries removed, at every depth
;   height v : nesting depth (uninterpreted; children are strictly lower) - evaluation refuses trees nested deeper
;              than its recursion guard (1000), which is a documented limit, so the clauses carry that premise
; ---------------------------------------------------------------------------------------------
; escS s : s is not read as a directive: it does not start with "$", or the dollar is doubled, or it is a string such as
;          $FOO, ${X}, $(cmd): "$" followed by something that is neither a lower-case letter nor an interpolation "$"..."" 
(define-fun escS ((s String)) Bool
  (=> (str.prefixof "$" s)
      (or (str.prefixof "$$" s)
          (and (not (and (>= (str.len s) 2) (isLowerRune (str.to_code (str.at s 1)))))
               (not (and (str.prefixof "$""" s) (str.suffixof """" s)))))))
(define-funs-rec (
  (escV ((v Val)) Bool)
  (escL ((l Lst)) Bool))
 ((ite ((_ is VStr) v) (escS (sv v))
  (ite ((_ is VList) v) (escL (ls v))
  (ite ((_ is VMap) v) (forall ((k String)) (=> (not (= (select (mc v) k) VAbsent)) (and (escS k) (escV (select (mc v) k)))))
  true)))
  (ite ((_ is LNil) l) true (and (escV (hd l)) (escL (tl l))))))
(declare-fun dropF (Val) Val)
(define-fun-rec dropL ((l Lst)) Lst
  (ite ((_ is LNil) l) LNil (ite (= (dropF (hd l)) VNil) (dropL (tl l)) (LCons (dropF (hd l)) (dropL (tl l))))))
(define-fun dropRel ((v Val) (r Val)) Bool
  (ite ((_ is VMap) v)
       (and ((_ is VMap) r)
            (forall ((k String)) (= (select (mc r) k)
               (ite (or (= (select (mc v) k) VAbsent) (= (dropF (select (mc v) k)) VNil)) VAbsent (dropF (select (mc v) k))))))
  (ite ((_ is VList) v) (= r (VList (dropL (ls v))))
  (= r v))))
; AX dropF-def
(assert (forall ((v Val)) (! (dropRel v (dropF v)) :pattern ((dropF v)))))
;   noNullV v : no map entry and no list entry of v, at any depth, is null. Phase 1 of evaluation (process1*) returns such
;               trees; that is what makes a reference to a key whose value is null a MISSING reference in phase 2 (C13:
;               "a missing reference is an error"): null means "no such key" in bkl, and look-ups must not find one.
(define-funs-rec (
  (noNullV ((v Val)) Bool)
  (noNullL ((l Lst)) Bool))
 ((ite ((_ is VList) v) (noNullL (ls v))
  (ite ((_ is VMap) v) (forall ((k String)) (=> (not (= (select (mc v) k) VAbsent)) (and (not (= (select (mc v) k) VNil)) (noNullV (select (mc v) k)))))
  true))
  (ite ((_ is LNil) l) true (and (not (= (hd l) VNil)) (noNullV (hd l)) (noNullL (tl l))))))
(declare-fun height (Val) Int)
(declare-fun heightL (Lst) Int)
; AX height: children are strictly lower than their container
(assert (forall ((v Val)) (! (>= (height v) 0) :pattern ((height v)))))
(assert (forall ((v Val) (k String)) (! (=> (and ((_ is VMap) v) (not (= (select (mc v) k) VAbsent))) (< (height (select (mc v) k)) (height v))) :pattern ((height (select (mc v) k))))))
(assert (forall ((v Val)) (! (=> ((_ is VList) v) (= (height v) (+ 1 (heightL (ls v))))) :pattern ((heightL (ls v))))))
(assert (forall ((h Val) (t Lst)) (! (and (<= (height h) (heightL (LCons h t))) (<= (heightL t) (heightL (LCons h t))) (>= (heightL t) 0)) :pattern ((heightL (LCons h t))))))
(assert (forall ((a Lst) (b Lst)) (! (>= (heightL (app a b)) (heightL b)) :pattern ((app a b)))))
(assert (forall ((v Val)) (! (=> (and (not ((_ is VMap) v)) (not ((_ is VList) v))) (= (height v) 0)) :pattern ((height v)))))
(define-fun quiet ((v Val) (depth Int)) Bool (and (escV v) (< (+ depth (height v)) 1000)))
(define-fun-rec anyKeyL ((l Lst) (k String)) Bool
  (ite ((_ is LNil) l) false (or (and ((_ is VMap) (hd l)) (not (= (select (mc (hd l)) k) VAbsent))) (anyKeyL (tl l) k))))
; ---- popListMapValue(l, k): the directive entry {k: v} of a list (a map with exactly that one key)
;   plmvE l k r : a second such entry while one with a non-null value was already taken (r) is an error
;   plmvV l k r : the value taken (the last one seen; earlier ones can only have been null)
;   plmvR l k   : the list without those entries
(define-fun isSingK ((x Val) (k String)) Bool
  (and ((_ is VMap) x) (= (mlen (mc x)) 1) (not (= (select (mc x) k) VAbsent))))
(define-fun-rec plmvE ((l Lst) (k String) (r Val)) Bool
  (ite ((_ is LNil) l) false
       (ite (isSingK (hd l) k) (ite (not (= r VNil)) true (plmvE (tl l) k (select (mc (hd l)) k))) (plmvE (tl l) k r))))
(define-fun-rec plmvV ((l Lst) (k String) (r Val)) Val
  (ite ((_ is LNil) l) r
       (ite (isSingK (hd l) k) (plmvV (tl l) k (select (mc (hd l)) k)) (plmvV (tl l) k r))))
(define-fun-rec plmvR ((l Lst) (k String)) Lst
  (ite ((_ is LNil) l) LNil
       (ite (isSingK (hd l) k) (plmvR (tl l) k) (LCons (hd l) (plmvR (tl l) k)))))
;   collectK l k : the values of all entries {k: v} of l, in order ($merge entries of a list)
(define-fun-rec collectK ((l Lst) (k String)) Lst
  (ite ((_ is LNil) l) LNil
       (ite (isSingK (hd l) k) (LCons (select (mc (hd l)) k) (collectK (tl l) k)) (collectK (tl l) k))))
