; ---------------------------------------------------------------------------------------------
; lookup.smt2 — reference look-ups of $merge / $replace (C10), from the property statement.
;   lookupF o ps / lookErr o ps : follow the keys ps from o; a missing key or a non-map on the way is an error
;   countMatch h ds p / firstMatch h ds p : cross-document pattern: how many stored documents match, and the first
;   allStr l / toSL l : a list path must consist of strings
; ---------------------------------------------------------------------------------------------
(define-fun-rec lookErr ((o Val) (ps SLst)) Bool
  (ite ((_ is SNil) ps) false
       (or (not ((_ is VMap) o)) (= (select (mc o) (shd ps)) VAbsent) (lookErr (select (mc o) (shd ps)) (stl ps)))))
(define-fun-rec lookupF ((o Val) (ps SLst)) Val
  (ite ((_ is SNil) ps) o (lookupF (select (mapOf o) (shd ps)) (stl ps))))
(define-fun-rec countMatch ((h (Array Int Val)) (ds RLst) (p Val)) Int
  (ite ((_ is RNil) ds) 0 (+ (ite (matchS (select h (rhd ds)) p) 1 0) (countMatch h (rtl ds) p))))
(define-fun-rec firstMatch ((h (Array Int Val)) (ds RLst) (p Val)) Int
  (ite ((_ is RNil) ds) 0 (ite (matchS (select h (rhd ds)) p) (rhd ds) (firstMatch h (rtl ds) p))))
(define-fun-rec allStr ((l Lst)) Bool (ite ((_ is LNil) l) true (and ((_ is VStr) (hd l)) (allStr (tl l)))))
(define-fun-rec toSL ((l Lst)) SLst (ite ((_ is LNil) l) SNil (SCons (sv (hd l)) (toSL (tl l)))))
(define-fun crossHead ((l Lst)) Bool (and (not (= l LNil)) (or ((_ is VMap) (hd l)) ((_ is VList) (hd l)))))
; result of a list path [pattern?, key, key, ...] looked up from obj / from the unique matching document
; (listPathE / listPathF: whether the look-up fails, and its value when it does not)
(define-fun listPathE ((h (Array Int Val)) (obj Val) (ds RLst) (l Lst)) Bool
  (ite (crossHead l)
       (or (not (= (countMatch h ds (hd l)) 1)) (not (allStr (tl l))) (lookErr (select h (firstMatch h ds (hd l))) (toSL (tl l))))
       (or (not (allStr l)) (lookErr obj (toSL l)))))
(define-fun listPathF ((h (Array Int Val)) (obj Val) (ds RLst) (l Lst)) Val
  (ite (crossHead l) (lookupF (select h (firstMatch h ds (hd l))) (toSL (tl l))) (lookupF obj (toSL l))))
(define-fun listPathOK ((h (Array Int Val)) (obj Val) (ds RLst) (l Lst) (res Val) (err Bool)) Bool
  (and (= err (listPathE h obj ds l)) (=> (not err) (= res (listPathF h obj ds l)))))
; result of a string reference: YAML-parsed; a plain string is a dotted key path, a list is a list path
(define-fun strPathE ((h (Array Int Val)) (obj Val) (ds RLst) (s String)) Bool
  (ite (isErr (yamlParseE s)) true
  (ite ((_ is VStr) (yamlParseF s)) (lookErr obj (strSplit (sv (yamlParseF s)) "."))
  (ite ((_ is VList) (yamlParseF s)) (listPathE h obj ds (ls (yamlParseF s)))
       true))))
(define-fun strPathF ((h (Array Int Val)) (obj Val) (ds RLst) (s String)) Val
  (ite ((_ is VStr) (yamlParseF s)) (lookupF obj (strSplit (sv (yamlParseF s)) "."))
       (listPathF h obj ds (ls (yamlParseF s)))))
(define-fun strPathOK ((h (Array Int Val)) (obj Val) (ds RLst) (s String) (res Val) (err Bool)) Bool
  (and (= err (strPathE h obj ds s)) (=> (not err) (= res (strPathF h obj ds s)))))
