; ---------------------------------------------------------------------------------------------
; framing.smt2 — document streams (C05): how bkl frames the per-document encodings, from docs/index.html ("Streams").
;   TOML : documents separated by a line "---"; no separator before the first document
;   YAML : the YAML encoder separates documents itself; a null document is written as a bare "---" line (nothing at all
;          if it is the first)
;   JSON : the per-document encodings, concatenated (each ends with a newline)
; c is the encoder configuration, i the index of the document in the stream, k the number of earlier Encode calls.
; ---------------------------------------------------------------------------------------------
(define-fun-rec tomlFrame ((c Int) (l Lst) (k Int)) String
  (ite ((_ is LNil) l) "" (str.++ (ite (= k 0) "" "---\u{a}") (encS c (hd l) k) (tomlFrame c (tl l) (+ k 1)))))
(define-fun-rec seqEncErr ((c Int) (l Lst) (k Int)) Bool
  (ite ((_ is LNil) l) false (or (isErr (encE c (hd l) k)) (seqEncErr c (tl l) (+ k 1)))))
(define-fun-rec jsonFrame ((c Int) (l Lst) (k Int)) String
  (ite ((_ is LNil) l) "" (str.++ (encS c (hd l) k) (jsonFrame c (tl l) (+ k 1)))))
(define-fun-rec yamlFrame ((c Int) (l Lst) (i Int) (k Int)) String
  (ite ((_ is LNil) l) ""
  (ite (= (hd l) VNil) (str.++ (ite (= i 0) "" "---\u{a}") (yamlFrame c (tl l) (+ i 1) k))
       (str.++ (encS c (hd l) k) (yamlFrame c (tl l) (+ i 1) (+ k 1))))))
(define-fun-rec yamlEncErr ((c Int) (l Lst) (k Int)) Bool
  (ite ((_ is LNil) l) false
  (ite (= (hd l) VNil) (yamlEncErr c (tl l) k)
       (or (isErr (encE c (hd l) k)) (yamlEncErr c (tl l) (+ k 1))))))
; Lines a reader may take for a document separator ("Streams"): only lines that cannot be part of a document.
;   YAML: a document-start marker, "---" alone or followed by white space (YAML 1.2 c-document-start + separation):
;         such a line is never content, so the encoder cannot have written it inside a document
;   TOML: "---" or, as in front matter, "+++", alone or followed by white space only: never valid TOML (a bare key
;         needs "="), so the encoder cannot have written it inside a document
; (assumed about the encoders: they write valid documents of their format)
(define-fun wsTail () RegLan (re.* (re.union (str.to_re " ") (str.to_re "\u{9}") (str.to_re "\u{d}"))))
(define-fun tomlSepLine ((s String)) Bool
  (str.in_re s (re.++ (re.union (str.to_re "---") (str.to_re "+++")) wsTail)))
(define-fun yamlSepLine ((s String)) Bool
  (or (= s "---") (str.prefixof "--- " s) (str.prefixof "---\u{9}" s) (str.prefixof "---\u{d}" s)))
; reading a stream: every part between separator lines is decoded, in order, none skipped; the first failure is the error
(define-fun-rec tomlDecE ((ps SLst)) Bool (ite ((_ is SNil) ps) false (or (isErr (tomlParseE (shd ps))) (tomlDecE (stl ps)))))
(define-fun-rec tomlDecF ((ps SLst)) Lst (ite ((_ is SNil) ps) LNil (LCons (tomlParseF (shd ps)) (tomlDecF (stl ps)))))
; the JSON reader: the values the decoder yields, in order, up to the end of the text
(define-fun-rec jsonReadF ((c Int) (s String) (k Int)) Lst
  (ite (or (< k 0) (>= k (decCount c s))) LNil (LCons (decV c s k) (jsonReadF c s (+ k 1)))))
