; ---------------------------------------------------------------------------------------------
; repeat.smt2 — $repeat expansion (C12), from the property statement.
;   repInt hv hd docs ecs bv bd name top : docs/ecs are the copies for a plain count: the j-th copy is a fresh
;       document (reference >= top) holding the original data bd, evaluated in a fresh context whose variables are
;       the original ones (bv) plus name -> j
; ---------------------------------------------------------------------------------------------
(define-fun repInt ((hv (Array Int Val)) (hd2 (Array Int Val)) (docs RLst) (ecs RLst) (bv2 Val) (bd Val) (name String) (top Int)) Bool
  (and (= (rllen docs) (rllen ecs))
       (forall ((j Int)) (=> (and (<= 0 j) (< j (rllen docs)))
          (and (= (select hv (rlnth ecs j)) (VMap (store (mapOf bv2) name (VInt j))))
               (= (select hd2 (rlnth docs j)) bd)
               (>= (rlnth ecs j) top) (>= (rlnth docs j) top))))))
