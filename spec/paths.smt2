; ---------------------------------------------------------------------------------------------
; paths.smt2 — layer resolution from file names (C03), from the property statement.
; The file system and path/filepath are outside the contracts: findFileF / isStdinF / pathDir / pathBase / pathJoin /
; pathExtOK are uninterpreted (assumed contracts of findFile, isStdin and path/filepath).
; ---------------------------------------------------------------------------------------------
(declare-fun findFileF (String) String)   ; the existing file <path>.<supported ext>, "" if there is none
; AX findFile-def: findFileF p is an existing file p.<supported extension>, "" exactly if there is none
(assert (forall ((p String)) (! (ite (forall ((e String)) (=> (not (= (fmtByName e) 0)) (fileMissing (str.++ p "." e))))
                                     (= (findFileF p) "")
                                     (exists ((e String)) (and (not (= (fmtByName e) 0)) (not (fileMissing (str.++ p "." e))) (= (findFileF p) (str.++ p "." e)))))
                                :pattern ((findFileF p)))))
; AX one-file-per-layer: the properties quantify over layouts in which each layer name is provided by exactly one file
(assert (forall ((p String) (e1 String) (e2 String))
  (! (=> (and (not (= (fmtByName e1) 0)) (not (= (fmtByName e2) 0))
              (not (isErr (statE (str.++ p "." e1)))) (not (isErr (statE (str.++ p "." e2))))) (= e1 e2))
     :pattern ((statE (str.++ p "." e1)) (statE (str.++ p "." e2))))))
; AX osErrNotExist-is-an-error
(assert ((_ is E) osErrNotExist))
(declare-fun pathDir (String) String)
(declare-fun pathBase (String) String)
(declare-fun pathJoin (String String) String)
(define-fun isStdinF ((p String)) Bool (= (trimSuffix (pathBase p) (pathExt p)) "-"))
(define-fun extOf ((p String)) String (trimPrefix (pathExt p) "."))
(define-fun extOK ((p String)) Bool (not (= (fmtByName (extOf p)) 0)))   ; the extension is one of the supported formats
(declare-fun globRawS (String) SSlice)     ; filepath.Glob(pattern): the matching paths, in Glob's order
(declare-fun globRawE (String) ErrV)
(declare-fun evalSymlinksF (String) String) ; filepath.EvalSymlinks(path): the path with links resolved (= path if it is no link)
(declare-fun evalSymlinksE (String) ErrV)
(define-fun-rec allDots ((l SLst) (n Int)) Bool
  (ite ((_ is SNil) l) true (and (= (strCount (shd l) ".") n) (allDots (stl l) n))))
; the parent named by a file name a.b.c.<ext>: the layer a.b, under any supported extension
(define-fun parentLayerPath ((p String)) String
  (pathJoin (pathDir p) (strJoin (sltake (strSplit (pathBase p) ".") (- (sllen (strSplit (pathBase p) ".")) 2)) ".")))
(define-fun-rec rlast ((l RLst)) Int (ite ((_ is RNil) l) 0 (ite ((_ is RNil) (rtl l)) (rhd l) (rlast (rtl l)))))
; ---- $parent: names, lists, wildcards (the * of "<name>.*" never crosses a dot), false / null
;   globSel ms n : of Glob's matches, those with exactly n dots (the wildcard did not cross a dot) and a supported extension
;   globF p      : the layer files named by p: p.<any supported extension>
(define-fun-rec globSel ((ms SLst) (n Int)) SLst
  (ite ((_ is SNil) ms) SNil
       (ite (and (= (strCount (shd ms) ".") n) (extOK (shd ms))) (SCons (shd ms) (globSel (stl ms) n)) (globSel (stl ms) n))))
(define-fun globF ((p String)) SLst (globSel (sitems (globRawS (str.++ p ".*"))) (strCount (str.++ p ".*") ".")))
(define-fun globE ((p String)) Bool (isErr (globRawE (str.++ p ".*"))))
;   absBad dir ps / absList dir ps : the names ps, relative to dir, resolved to files; a name without a file is an error
;   visP root p : p lies inside the root directory (C18: files outside the root are not visible - whether they exist must
;                 not change which parents are found); visL root l : the visible ones of l, in order.
;                 filepath.Abs / Rel / IsLocal are uninterpreted (with root "/" every absolute path is visible).
(declare-fun pathAbsF (String) String)
(declare-fun pathAbsE (String) ErrV)
(declare-fun pathRelF (String String) String)
(declare-fun pathRelE (String String) ErrV)
(declare-fun pathIsLocal (String) Bool)
;                 The root and the directory of p are resolved first (a directory inside the root may be a link that leaves
;                 it); a path that cannot be resolved is compared as it is written.
(define-fun resolvedOr ((p String)) String (ite (isErr (evalSymlinksE p)) p (evalSymlinksF p)))
(define-fun visTarget ((p String)) String (pathJoin (resolvedOr (pathDir (pathAbsF p))) (pathBase (pathAbsF p))))
(define-fun visP ((root String) (p String)) Bool
  (and (not (isErr (pathAbsE p))) (not (isErr (pathRelE (resolvedOr root) (visTarget p))))
       (pathIsLocal (pathRelF (resolvedOr root) (visTarget p)))))
(define-fun-rec visL ((root String) (l SLst)) SLst
  (ite ((_ is SNil) l) SNil (ite (visP root (shd l)) (SCons (shd l) (visL root (stl l))) (visL root (stl l)))))
(define-fun-rec allVis ((root String) (l SLst)) Bool
  (ite ((_ is SNil) l) true (and (visP root (shd l)) (allVis root (stl l)))))
(define-fun-rec absBad ((root String) (dir String) (ps SLst)) Bool
  (ite ((_ is SNil) ps) false
       (or (globE (pathJoin dir (shd ps))) (= (visL root (globF (pathJoin dir (shd ps)))) SNil) (absBad root dir (stl ps)))))
(define-fun-rec absList ((root String) (dir String) (ps SLst)) SLst
  (ite ((_ is SNil) ps) SNil (sapp (visL root (globF (pathJoin dir (shd ps)))) (absList root dir (stl ps)))))
;   the $parent entries of a file's documents (h: Document.Data of every document, ds: the file's documents in order):
;   dirStrs: the names given (a string, or a list of strings), dirNo: some document says false / null,
;   dirBad: some document says true, or gives a list with a non-string
(define-fun dpVal ((v Val)) Val (ite ((_ is VMap) v) (select (mc v) "$parent") VAbsent))
(define-fun-rec dirStrs ((h (Array Int Val)) (ds RLst)) SLst
  (ite ((_ is RNil) ds) SNil
       (ite ((_ is VStr) (dpVal (select h (rhd ds)))) (SCons (sv (dpVal (select h (rhd ds)))) (dirStrs h (rtl ds)))
       (ite ((_ is VList) (dpVal (select h (rhd ds)))) (sapp (toSL (ls (dpVal (select h (rhd ds))))) (dirStrs h (rtl ds)))
            (dirStrs h (rtl ds))))))
(define-fun-rec dirNo ((h (Array Int Val)) (ds RLst)) Bool
  (ite ((_ is RNil) ds) false
       (or (= (dpVal (select h (rhd ds))) (VBool false)) (= (dpVal (select h (rhd ds))) VNil) (dirNo h (rtl ds)))))
(define-fun-rec dirBad ((h (Array Int Val)) (ds RLst)) Bool
  (ite ((_ is RNil) ds) false
       (or (= (dpVal (select h (rhd ds))) (VBool true))
           (and ((_ is VList) (dpVal (select h (rhd ds)))) (not (allStr (ls (dpVal (select h (rhd ds)))))))
           (dirBad h (rtl ds)))))
;   fnE / fnS: the parent given by the file name a.b.c.<ext> (the layer a.b), none for a.<ext> and for stdin
(define-fun fnParts ((p String)) Int (sllen (strSplit (pathBase p) ".")))
(define-fun fnE ((p String)) Bool
  (and (not (isStdinF p)) (or (< (fnParts p) 2) (and (> (fnParts p) 2) (= (findFileF (parentLayerPath p)) "")))))
(define-fun fnS ((p String)) SSlice
  (ite (or (isStdinF p) (= (fnParts p) 2)) (Slice SNil) (Slice (SCons (findFileF (parentLayerPath p)) SNil))))
; ---- which layers a file inherits from: its $parent directives win, then (for a symbolic link) the name of the link's
;      target, then its own name. SliceNil = "this rule does not apply"; an empty list = "no parents".
(define-fun dirE ((h (Array Int Val)) (ds RLst) (root String) (dir String)) Bool
  (or (dirBad h ds)
      (and (dirNo h ds) (not (= (dirStrs h ds) SNil)))
      (and (not (dirNo h ds)) (absBad root dir (dirStrs h ds)))))
(define-fun dirS ((h (Array Int Val)) (ds RLst) (root String) (dir String)) SSlice
  (ite (dirNo h ds) (Slice SNil) (ite (= (dirStrs h ds) SNil) SliceNil (Slice (absList root dir (dirStrs h ds))))))
(define-fun symE ((p String)) Bool
  (and (not (isStdinF p)) (or (isErr (evalSymlinksE p)) (and (not (= (evalSymlinksF p) p)) (fnE (evalSymlinksF p))))))
(define-fun symS ((p String)) SSlice
  (ite (or (isStdinF p) (= (evalSymlinksF p) p)) SliceNil (fnS (evalSymlinksF p))))
(define-fun parentsE ((h (Array Int Val)) (ds RLst) (root String) (p String)) Bool
  (or (dirE h ds root (pathDir p))
      (and (= (dirS h ds root (pathDir p)) SliceNil) (or (symE p) (and (= (symS p) SliceNil) (fnE p))))))
(define-fun parentsS ((h (Array Int Val)) (ds RLst) (root String) (p String)) SSlice
  (ite (not (= (dirS h ds root (pathDir p)) SliceNil)) (dirS h ds root (pathDir p))
  (ite (not (= (symS p) SliceNil)) (symS p) (fnS p))))
