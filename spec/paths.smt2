; ---------------------------------------------------------------------------------------------
; paths.smt2 — layer resolution from file names (C03), from the property statement.
; The file system and path/filepath are outside the contracts: findFileF / isStdinF / pathDir / pathBase / pathJoin /
; pathExtOK are uninterpreted (assumed contracts of findFile, isStdin and path/filepath).
; ---------------------------------------------------------------------------------------------
(declare-fun findFileF (String) String)   ; the existing file <path>.<supported ext>, "" if there is none
(declare-fun isStdinF (String) Bool)
(declare-fun pathDir (String) String)
(declare-fun pathBase (String) String)
(declare-fun pathJoin (String String) String)
(declare-fun extOK (String) Bool)         ; the path's extension is one of the supported formats
(define-fun-rec allDots ((l SLst) (n Int)) Bool
  (ite ((_ is SNil) l) true (and (= (strCount (shd l) ".") n) (allDots (stl l) n))))
; the parent named by a file name a.b.c.<ext>: the layer a.b, under any supported extension
(define-fun parentLayerPath ((p String)) String
  (pathJoin (pathDir p) (strJoin (sltake (strSplit (pathBase p) ".") (- (sllen (strSplit (pathBase p) ".")) 2)) ".")))
(define-fun-rec rlast ((l RLst)) Int (ite ((_ is RNil) l) 0 (ite ((_ is RNil) (rtl l)) (rhd l) (rlast (rtl l)))))
