; ---------------------------------------------------------------------------------------------
; interp.smt2 — $env variables (C13), from the property statement.
;   envKey s / envVal s : an environment entry "K=V" is split at the FIRST "="
;   envFold acc es      : the variable map built from the environment: "$env:"+K -> the string V, entries without "="
;                         are skipped, a later entry for the same name wins
; ---------------------------------------------------------------------------------------------
(define-fun envHasEq ((s String)) Bool (str.contains s "="))
(define-fun envKey ((s String)) String (str.substr s 0 (str.indexof s "=" 0)))
(define-fun envVal ((s String)) String (str.substr s (+ (str.indexof s "=" 0) 1) (- (str.len s) (+ (str.indexof s "=" 0) 1))))
(define-fun-rec envFold ((acc MapC) (es SLst)) MapC
  (ite ((_ is SNil) es) acc
       (envFold (ite (envHasEq (shd es)) (store acc (str.++ "$env:" (envKey (shd es))) (VStr (envVal (shd es)))) acc) (stl es))))
; ---- references and interpolation (C13), from the property statement
;   context of an evaluation: h (Document.Data of every document), data (the document being evaluated), ds (all
;   documents), vars ($env:* and repeat variables)
;   gwvE / gwvF    : a reference m: the path look-up (lookup.smt2), falling back to the variable of that name
;   p2sE / p2sF    : the value of a string s at nesting depth d: $"..." is an interpolation, $env:X / $repeat a
;                    variable, any other string itself
;   refE / refF    : one {ref} of a template: the referenced value, evaluated again if it is a string, printed with %v
;   interpE / interpF : $"...": the delimiters are dropped, every match {…} of the template is replaced by its refF and
;                    all other text is kept (reSubst); a failing reference, or nesting beyond 1000, is an error
(define-fun interpPat () String "{.*?}")
(define-fun stripQ ((s String)) String (trimSuffix (trimPrefix s "$""") """"))
(define-fun stripB ((m String)) String (trimSuffix (trimPrefix m "{") "}"))
(define-fun isInterp ((s String)) Bool (and (str.prefixof "$""" s) (str.suffixof """" s)))
(define-fun isVarRef ((s String)) Bool (or (str.prefixof "$env:" s) (= s "$repeat")))
(define-fun gwvE ((h (Array Int Val)) (data Val) (ds RLst) (vars MapC) (m String)) Bool
  (and (strPathE h data ds m) (= (select vars m) VAbsent)))
(define-fun gwvF ((h (Array Int Val)) (data Val) (ds RLst) (vars MapC) (m String)) Val
  (ite (strPathE h data ds m) (select vars m) (strPathF h data ds m)))
(declare-fun p2sE ((Array Int Val) Val RLst MapC String Int) Bool)
(declare-fun p2sF ((Array Int Val) Val RLst MapC String Int) Val)
(define-fun refE ((h (Array Int Val)) (data Val) (ds RLst) (vars MapC) (m String) (d Int)) Bool
  (or (gwvE h data ds vars (stripB m))
      (and ((_ is VStr) (gwvF h data ds vars (stripB m))) (p2sE h data ds vars (sv (gwvF h data ds vars (stripB m))) (+ d 1)))))
(define-fun refF ((h (Array Int Val)) (data Val) (ds RLst) (vars MapC) (m String) (d Int)) String
  (fmtv (ite ((_ is VStr) (gwvF h data ds vars (stripB m)))
             (p2sF h data ds vars (sv (gwvF h data ds vars (stripB m))) (+ d 1))
             (gwvF h data ds vars (stripB m)))))
(define-fun-rec anyRefE ((h (Array Int Val)) (data Val) (ds RLst) (vars MapC) (ms SLst) (d Int)) Bool
  (ite ((_ is SNil) ms) false (or (refE h data ds vars (shd ms) d) (anyRefE h data ds vars (stl ms) d))))
(define-fun-rec mapRef ((h (Array Int Val)) (data Val) (ds RLst) (vars MapC) (ms SLst) (d Int)) SLst
  (ite ((_ is SNil) ms) SNil (SCons (refF h data ds vars (shd ms) d) (mapRef h data ds vars (stl ms) d))))
(define-fun interpE ((h (Array Int Val)) (data Val) (ds RLst) (vars MapC) (s String) (d Int)) Bool
  (or (> d 1000) (anyRefE h data ds vars (reMatches interpPat (stripQ s)) d)))
(define-fun interpF ((h (Array Int Val)) (data Val) (ds RLst) (vars MapC) (s String) (d Int)) Val
  (VStr (reSubst interpPat (stripQ s) (mapRef h data ds vars (reMatches interpPat (stripQ s)) d))))
; AX p2s-def (recursion on the nesting depth, which only grows and is cut at 1000)
(assert (forall ((h (Array Int Val)) (data Val) (ds RLst) (vars MapC) (s String) (d Int))
  (! (and (= (p2sE h data ds vars s d)
             (ite (isInterp s) (interpE h data ds vars s d) (ite (isVarRef s) (= (select vars s) VAbsent) false)))
          (=> (not (p2sE h data ds vars s d))
              (= (p2sF h data ds vars s d)
                 (ite (isInterp s) (interpF h data ds vars s d) (ite (isVarRef s) (select vars s) (VStr s))))))
     :pattern ((p2sE h data ds vars s d)) :pattern ((p2sF h data ds vars s d)))))
