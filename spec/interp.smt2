; ---------------------------------------------------------------------------------------------
; interp.smt2 — $env variables (C13), from the property statement.
;   envKey s / envVal s : an environment entry "K=V" is split at the FIRST "="
;   envFold acc es      : the variable map built from the environment: "$env:"+K -> the string V, entries without "="
;                         are skipped, a later entry for the same name wins
; ---------------------------------------------------------------------------------------------
(define-fun envHasEq ((s String)) Bool (str.contains s "="))
(define-fun envKey ((s String)) String (str.substr s 0 (str.indexof s "=" 0)))
(define-fun envVal ((s String)) String (str.substr s (+ (str.indexof s "=" 0) 1) (- (str.len s) (+ (str.indexof s "=" 0) 1))))
(define-fun-rec envFold ((acc MapC) (es SLst)) MapC
  (ite ((_ is SNil) es) acc
       (envFold (ite (envHasEq (shd es)) (store acc (str.++ "$env:" (envKey (shd es))) (VStr (envVal (shd es)))) acc) (stl es))))
