; ---------------------------------------------------------------------------------------------
; marker.smt2 — unresolved markers (C07, C17) and output selection/hiding (C11), from the property statements.
;   marker s   : s is "$required" or looks like a directive: at least two runes, '$' followed by a lowercase letter
;   noMarker v : no key and no string value of v, at any depth, is a marker
; ---------------------------------------------------------------------------------------------
(define-fun marker ((s String)) Bool
  (or (= s "$required")
      (and (>= (str.len s) 2) (= (str.to_code (str.at s 0)) 36) (isLowerRune (str.to_code (str.at s 1))))))
(define-funs-rec (
  (noMarker ((v Val)) Bool)
  (noMarkerL ((l Lst)) Bool))
 ((ite ((_ is VStr) v) (not (marker (sv v)))
  (ite ((_ is VList) v) (noMarkerL (ls v))
  (ite ((_ is VMap) v) (forall ((k String)) (=> (not (= (select (mc v) k) VAbsent)) (and (not (marker k)) (noMarker (select (mc v) k)))))
  true)))
  (ite ((_ is LNil) l) true (and (noMarker (hd l)) (noMarkerL (tl l))))))
